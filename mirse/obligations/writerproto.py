"""O8.5 Writer: the result a grouped follower reads is the result its leader stored (C08, C06)."""
import time
from z3 import BitVec, Bool, BoolVal, And, Or, Not
from ..exec import Exec, Enum, Ref, Opaque, Inconclusive, bv
from ..ob import Result, mval
from .. import lib


def o8_5_writer_protocol(mir, tier):
    """Writer::new followed by the two calls a leader makes for a follower of its group - set_operation_completed(true) and
    set_operation_result(r), in either order (DB::apply_changes completes first and stores the result second) - with r free
    (Ok or an error).  Reference: is_operation_complete() is true and get_operation_result() is Some(r), the result that was
    stored (a follower that reads Ok although its group's log write failed acknowledges a write that exists nowhere)."""
    new = mir.method('Writer', 'new'); comp = mir.method('Writer', 'set_operation_completed'); setr = mir.method('Writer', 'set_operation_result')
    getr = mir.method('Writer', 'get_operation_result'); isc = mir.method('Writer', 'is_operation_complete')
    res = Result('O8.5 Writer result protocol', [new.path, comp.path, setr.path, getr.path, isc.path], 'result Ok / Err free; both orders of "mark complete" and "store result"; Mutex transparent')
    t0 = time.time()
    failed = Bool('group_write_failed')
    for order in (('complete', 'result'), ('result', 'complete')):
        for r_is_err in (False, True):
            S = lib.std_summaries(); P = S['$patterns']
            lib.combinator_summaries(P)
            P[r'parking_lot::lock_api::Mutex::lock'] = lib.ident
            P[r'<parking_lot::lock_api::MutexGuard<.*> as Deref(?:Mut)?>::deref(?:_mut)?'] = lib.ptr_deref
            P[r'(?:parking_lot::)?Condvar::new'] = lambda se, env, pc: lib.one(env, 'condvar')
            P[r'<Option<Result<\(\), RainDBError>> as Clone>::clone'] = lib.deref1
            P[r'Option::get_or_insert'] = lambda se, env, pc, o, v: (lib.one(env, o) if se.deref(env, o).tag == 'Some' else (se.store(env, o, Enum('Some', (v,))), lib.one(env, o))[1])
            ex = Exec(mir, S, loop_bound=4)
            r = Enum('Err', (Enum('Write', ({'str': 'log write failed'},), 'RainDBError'),)) if r_is_err else Enum('Ok', ((),))
            def made(w, env, pc, ex=ex, order=order, r=r, r_is_err=r_is_err):
                e = dict(env); e['$w'] = w
                def step(i, env2, pc2):
                    if i == 2:
                        return ex.run_fn(getr, [Ref('$w')], env2, pc2, lambda got, e3, p3: ex.run_fn(isc, [Ref('$w')], e3, p3, lambda done, e4, p4: check(got, done, e4, p4)))
                    if order[i] == 'complete': return ex.run_fn(comp, [Ref('$w'), BoolVal(True)], env2, pc2, lambda _r, e3, p3: step(i + 1, e3, p3))
                    return ex.run_fn(setr, [Ref('$w'), r], env2, pc2, lambda _r, e3, p3: step(i + 1, e3, p3))
                def check(got, done, e4, p4):
                    same = isinstance(got, Enum) and got.tag == 'Some' and isinstance(got.fields[0], Enum) and got.fields[0].tag == ('Err' if r_is_err else 'Ok')
                    posts = [('a writer whose operation was completed by its group leader does not read the result the leader stored for it (a follower sees Ok although the group\'s log write failed)', BoolVal(same)),
                             ('a writer marked complete does not report completion', done if not isinstance(done, bool) else BoolVal(done))]
                    res.cases['%s, result %s -> %s' % ('+'.join(order), 'Err' if r_is_err else 'Ok', getattr(got.fields[0], 'tag', '?') if isinstance(got, Enum) and got.fields else getattr(got, 'tag', '?'))] = 1
                    for label, post, m in ex.check_posts(posts, p4):
                        res.violations.append({'label': label, 'order': list(order), 'stored': 'Err' if r_is_err else 'Ok', 'replay': ['sched_group_commit_fault']})
                step(0, e, pc)
            ex.top(new, [Enum('None'), BoolVal(False)], {'$state': {}}, [], made)
            res.absorb(ex)
    res.wall_s = time.time() - t0
    if res.violations: res.status = 'violation'
    return res


def o8_5_confirm(v, out):
    """Native: two writers are queued behind an active one (forced schedule); the log write of their group fails: both must report the
    error, and nothing that was acknowledged may be missing."""
    if out.get('_rc') != 0: return (False, 'native run failed: %s' % out.get('_stderr', '')[-300:])
    bad = [k for k in ('small', 'big') if out.get(k + '_put') == 'ok' and out.get(k + '_get') == 'missing']
    return (bool(bad), 'native: group log write failed (%s injected failures): puts %s / %s, reads %s / %s' % (out.get('injected_failures'), out.get('small_put'), out.get('big_put'), out.get('small_get'), out.get('big_get')))
