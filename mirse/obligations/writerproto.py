"""O8.5 Writer: the result a grouped follower reads is the result its leader stored (C08, C06)."""
import time
from z3 import BitVec, Bool, BoolVal, And, Or, Not
from ..exec import Exec, Enum, Ref, Opaque, Inconclusive, bv
from ..ob import Result, mval
from .. import lib


def o8_5_writer_protocol(mir, tier):
    """Writer::new followed by the two calls a leader makes for a follower of its group - set_operation_completed(true) and
    set_operation_result(r), in either order (DB::apply_changes completes first and stores the result second) - with r free
    (Ok or an error).  Reference: is_operation_complete() is true and get_operation_result() is Some(r), the result that was
    stored (a follower that reads Ok although its group's log write failed acknowledges a write that exists nowhere)."""
    new = mir.method('Writer', 'new'); comp = mir.method('Writer', 'set_operation_completed'); setr = mir.method('Writer', 'set_operation_result')
    getr = mir.method('Writer', 'get_operation_result'); isc = mir.method('Writer', 'is_operation_complete')
    res = Result('O8.5 Writer result protocol', [new.path, comp.path, setr.path, getr.path, isc.path], 'result Ok / Err free; both orders of "mark complete" and "store result"; Mutex transparent')
    t0 = time.time()
    failed = Bool('group_write_failed')
    for order in (('complete', 'result'), ('result', 'complete')):
        for r_is_err in (False, True):
            S = lib.std_summaries(); P = S['$patterns']
            lib.combinator_summaries(P)
            P[r'parking_lot::lock_api::Mutex::lock'] = lib.ident
            P[r'<parking_lot::lock_api::MutexGuard<.*> as Deref(?:Mut)?>::deref(?:_mut)?'] = lib.ptr_deref
            P[r'(?:parking_lot::)?Condvar::new'] = lambda se, env, pc: lib.one(env, 'condvar')
            P[r'<Option<Result<\(\), RainDBError>> as Clone>::clone'] = lib.deref1
            P[r'Option::get_or_insert'] = lambda se, env, pc, o, v: (lib.one(env, o) if se.deref(env, o).tag == 'Some' else (se.store(env, o, Enum('Some', (v,))), lib.one(env, o))[1])
            ex = Exec(mir, S, loop_bound=4)
            r = Enum('Err', (Enum('Write', ({'str': 'log write failed'},), 'RainDBError'),)) if r_is_err else Enum('Ok', ((),))
            def made(w, env, pc, ex=ex, order=order, r=r, r_is_err=r_is_err):
                e = dict(env); e['$w'] = w
                def step(i, env2, pc2):
                    if i == 2:
                        return ex.run_fn(getr, [Ref('$w')], env2, pc2, lambda got, e3, p3: ex.run_fn(isc, [Ref('$w')], e3, p3, lambda done, e4, p4: check(got, done, e4, p4)))
                    if order[i] == 'complete': return ex.run_fn(comp, [Ref('$w'), BoolVal(True)], env2, pc2, lambda _r, e3, p3: step(i + 1, e3, p3))
                    return ex.run_fn(setr, [Ref('$w'), r], env2, pc2, lambda _r, e3, p3: step(i + 1, e3, p3))
                def check(got, done, e4, p4):
                    same = isinstance(got, Enum) and got.tag == 'Some' and isinstance(got.fields[0], Enum) and got.fields[0].tag == ('Err' if r_is_err else 'Ok')
                    posts = [('a writer whose operation was completed by its group leader does not read the result the leader stored for it (a follower sees Ok although the group\'s log write failed)', BoolVal(same)),
                             ('a writer marked complete does not report completion', done if not isinstance(done, bool) else BoolVal(done))]
                    res.cases['%s, result %s -> %s' % ('+'.join(order), 'Err' if r_is_err else 'Ok', getattr(got.fields[0], 'tag', '?') if isinstance(got, Enum) and got.fields else getattr(got, 'tag', '?'))] = 1
                    for label, post, m in ex.check_posts(posts, p4):
                        res.violations.append({'label': label, 'order': list(order), 'stored': 'Err' if r_is_err else 'Ok', 'replay': ['sched_group_commit_fault']})
                step(0, e, pc)
            ex.top(new, [Enum('None'), BoolVal(False)], {'$state': {}}, [], made)
            res.absorb(ex)
    res.wall_s = time.time() - t0
    if res.violations: res.status = 'violation'
    return res


def o8_5_confirm(v, out):
    """Native: two writers are queued behind an active one (forced schedule); the log write of their group fails: both must report the
    error, and nothing that was acknowledged may be missing."""
    if out.get('_rc') != 0: return (False, 'native run failed: %s' % out.get('_stderr', '')[-300:])
    bad = [k for k in ('small', 'big') if out.get(k + '_put') == 'ok' and out.get(k + '_get') == 'missing']
    return (bool(bad), 'native: group log write failed (%s injected failures): puts %s / %s, reads %s / %s' % (out.get('injected_failures'), out.get('small_put'), out.get('big_put'), out.get('small_get'), out.get('big_get')))


def o5_4_first_writer_identity(mir, tier):
    """DB::is_first_writer over a writer queue whose two writers carry EQUAL requests (both "no batch", same synchronous flag - e.g.
    two concurrent forced flushes - or the queue is empty / holds only the asking writer).  Writers are heap cells; `Arc::ptr_eq`
    compares cells, `==` on writers runs the real `<Writer as PartialEq>::eq`.  Reference: true exactly when the asking writer IS
    the writer at the head of the queue - a second writer with equal contents is not the leader (two leaders would reuse the
    same sequence numbers and acknowledge each other's writes)."""
    fn = mir.method('DB', 'is_first_writer')
    res = Result('O5.4 DB::is_first_writer means identity with the queue head', [fn.path, '<Writer as PartialEq>::eq (reached only if writers are compared by value)'],
                 'queues: empty, [asker], [other, asker], [asker, other] where other carries an equal request; synchronous flags free')
    t0 = time.time()
    gf = mir.struct_fields('GuardedDbFields')
    sync = Bool('synchronous')
    for shape in ('empty', 'alone', 'second', 'first'):
        S = lib.std_summaries(); P = S['$patterns']
        lib.combinator_summaries(P)
        P[r'<parking_lot::lock_api::MutexGuard<.*> as Deref(?:Mut)?>::deref(?:_mut)?'] = lib.ptr_deref
        def front(se, env, pc, q):
            l = q
            while isinstance(l, Ref): l = se.deref(env, l)
            return lib.one(env, Enum('Some', (l[0],)) if l else Enum('None'))
        P[r'VecDeque::front'] = front
        def val(se, env, x):
            k = 0
            while isinstance(x, Ref) and not str(x.local).startswith('$writer') and k < 8: x = lib.get_at(env[x.local], x.path); k += 1
            return x
        def same_cell(x, y): return isinstance(x, Ref) and isinstance(y, Ref) and x.local == y.local and tuple(x.path) == tuple(y.path)
        P[r'Arc::ptr_eq'] = lambda se, env, pc, a, b: lib.one(env, BoolVal(same_cell(val(se, env, a), val(se, env, b))))
        weq = mir.method('Writer', 'eq', 'PartialEq')
        from ..exec import Delegate
        P[r'<Arc<Writer> as PartialEq>::eq'] = lambda se, env, pc, a, b: Delegate(weq, [val(se, env, a), val(se, env, b)], lambda r: r, merge=True)
        P[r'<&Arc<Writer> as PartialEq>::eq'] = P[r'<Arc<Writer> as PartialEq>::eq']
        P[r'<Option<Batch> as PartialEq>::eq'] = lambda se, env, pc, a, b: lib.one(env, BoolVal(True))       # both requests carry no batch
        P[r'(?:std|core)::ptr::eq'] = lambda se, env, pc, a, b: lib.one(env, BoolVal(lib.base_ref(se, env, a).local == lib.base_ref(se, env, b).local) if isinstance(a, Ref) and isinstance(b, Ref) else BoolVal(a is b))
        mk = lambda: mir.mk_struct('Writer', maybe_batch=Enum('None'), synchronous_write=sync, inner={'inner': True}, thread_signaller='cv')
        queue = {'empty': [], 'alone': [Ref('$writer_a')], 'second': [Ref('$writer_b'), Ref('$writer_a')], 'first': [Ref('$writer_a'), Ref('$writer_b')]}[shape]
        g = mir.mk_struct('GuardedDbFields', writer_queue=list(queue))
        ex = Exec(mir, S, loop_bound=3)
        want = shape in ('alone', 'first')
        def k(ret, env, pc, ex=ex, shape=shape, want=want):
            posts = [('is_first_writer does not answer "is this very writer at the head of the queue" (a writer queued behind one with an equal request believes it is the leader: two active writers)', ret == BoolVal(want) if not isinstance(ret, bool) else BoolVal(ret == want))]
            res.cases['queue %s -> expected %s' % (shape, want)] = 1
            for label, post, m in ex.check_posts(posts, pc):
                res.violations.append({'label': label, 'queue': shape, 'replay': ['identical_concurrent_writes']})
        env = {'$state': {}, '$db': {'abstract': True, '__ty': 'DB'}, '$g': g, '$guard': Ref('$g'), '$writer_a': mk(), '$writer_b': mk(), '$asker': Ref('$writer_a')}
        ex.top(fn, [Ref('$db'), Ref('$guard'), Ref('$asker')], env, [], k)
        res.absorb(ex)
    res.wall_s = time.time() - t0
    if res.violations: res.status = 'violation'
    return res


def o5_4_confirm(v, out):
    """Native: writer A is parked after its log append (forced schedule) while writer B issues the identical put; then a third write; the
    three writes must have used three consecutive sequence numbers and nothing may panic."""
    if out.get('_timeout'): return (True, 'native: the writers did not finish within the watchdog time')
    if out.get('_rc') != 0: return (True, 'native run panicked: %s' % out.get('_stderr', '')[-300:].replace('\n', ' | '))
    return (out.get('sequence_numbers_used') != '3' or out.get('both_ok') != 'true', 'native: two identical concurrent puts and one later put used %s sequence numbers; both identical puts acknowledged: %s' % (out.get('sequence_numbers_used'), out.get('both_ok')))
