"""O2.6 VersionSet::recover: what the version set holds after it has read CURRENT and the manifest it names.

The manifest is a sequence of R records given by contract (LogReader::read_record, VersionChangeManifest::try_from): every record
carries four free optional numbers (next file number, WAL number, previous WAL number, last sequence).  CURRENT names manifest
number N (free).  The code of recover, mark_file_number_used, get_new_file_number and maybe_reuse_manifest is executed."""
import time
from z3 import BitVec, BitVecVal, Bool, BoolVal, And, Or, Not, Implies, ULT, ULE, UGT, UGE, If, is_bv
from ..exec import Exec, Enum, Ref, Opaque, Inconclusive, bv
from ..ob import Result, mval
from .. import lib, lib2


def _ev(env, e):
    st = dict(env['$state']); st['events'] = st['events'] + [e]; env['$state'] = st; return st


def o2_6_versionset_recover(mir, tier):
    fn = mir.method('VersionSet', 'recover')
    R_MAX = 2 if tier == 'quick' else 3
    res = Result('O2.6 VersionSet::recover', [fn.path, mir.method('VersionSet', 'maybe_reuse_manifest').path, mir.method('VersionSet', 'get_new_file_number').path,
                                            mir.method('VersionSet', 'mark_file_number_used').path],
                 'manifest of 0..%d records by contract, each with four free optional numbers; CURRENT content (empty / no newline / manifest name N / other name / unparsable), '
                 'open errors, reuse option, manifest size and max_file_size free' % R_MAX)
    t0 = time.time()
    for R in range(0, R_MAX + 1):
        S = lib2.install(lib.std_summaries()); P = S['$patterns']
        N = BitVec('current_names_manifest', 64)
        cur_empty, cur_nl, cur_kind = Bool('current_is_empty'), Bool('current_ends_with_newline'), BitVec('current_name_kind', 8)
        open_ok, reader_ok, reader_nf = Bool('open_current_ok'), Bool('manifest_open_ok'), Bool('manifest_not_found')
        reuse, size_ok, writer_ok = Bool('reuse_log_files'), Bool('manifest_size_ok'), Bool('manifest_reopen_ok')
        fsize, maxsize = BitVec('manifest_size', 64), BitVec('max_file_size', 64)
        recs = []
        for i in range(R):
            recs.append({k: (Bool('r%d_has_%s' % (i, k)), BitVec('r%d_%s' % (i, k), 64)) for k in ('curr_file_number', 'wal_file_number', 'prev_wal_file_number', 'prev_sequence_number')})
        parse_ok = [Bool('r%d_parses' % i) for i in range(R)]
        read_err_at = BitVec('read_error_at', 8)   # index of the read_record call that fails (>= R+1: none)
        pre = [ULT(N, bv(1 << 60))] + [ULT(v[1], bv(1 << 60)) for r in recs for v in r.values()]

        P[r'DbOptions::filesystem_provider'] = lambda se, env, pc, o: lib.one(env, {'abstract': True, '__ty': 'fs'})
        P[r'FileNameHandler::get_current_file_path'] = lambda se, env, pc, h: lib.one(env, {'path': 'CURRENT'})
        P[r'FileNameHandler::get_manifest_file_path'] = lambda se, env, pc, h, n: lib.one(env, {'path': 'manifest', 'num': n})
        P[r'<PathBuf as Deref>::deref'] = lib.ident
        P[r'<PathBuf as AsRef<Path>>::as_ref'] = lib.ident
        P[r'Path::new'] = lib.ident
        def open_file(se, env, pc, fs, p):
            return [(open_ok, Enum('Ok', ({'abstract': True, '__ty': 'file'},)), env['$state']), (Not(open_ok), Enum('Err', ({'kind': Opaque('kind'), '__ty': 'io::Error'},)), env['$state'])]
        P[r'<dyn FileSystem as FileSystem>::open_file'] = open_file
        P[r'String::new'] = lambda se, env, pc: lib.one(env, {'str': 'empty'})
        # the executor's summaries return (cond, value, state); mutation of a by-ref String is not needed: the contents are
        # described by the three free variables above, whatever the String cell holds.
        P[r'<.* as (?:std::io::)?Read>::read_to_string'] = lambda se, env, pc, f, s: lib.one(env, Enum('Ok', (BitVec('current_len', 64),)))
        P[r'String::is_empty'] = lambda se, env, pc, s: lib.one(env, cur_empty)
        P[r'(?:core::)?str::<impl str>::ends_with'] = lambda se, env, pc, s, c: lib.one(env, cur_nl)
        P[r'(?:core::)?str::<impl str>::is_empty'] = lambda se, env, pc, s: lib.one(env, cur_empty)
        P[r'String::len'] = lambda se, env, pc, s: lib.one(env, BitVec('current_len', 64))
        P[r'(?:core::)?str::<impl str>::len'] = lambda se, env, pc, s: lib.one(env, BitVec('current_len', 64))
        pre.append(Implies(Not(cur_empty), UGE(BitVec('current_len', 64), bv(1))))
        P[r'String::truncate'] = lib.unit
        P[r'<String as Deref>::deref'] = lib.ident
        P[r'<String as AsRef<.*>>::as_ref'] = lib.ident
        P[r'<str as AsRef<.*>>::as_ref'] = lib.ident
        def ftype(se, env, pc, p):
            v = se.deref(env, p) if isinstance(p, Ref) else p
            if isinstance(v, dict) and v.get('path') == 'manifest':     # maybe_reuse_manifest parses the path it was given
                return lib.one(env, Enum('Ok', (Enum('ManifestFile', (v['num'],), 'ParsedFileType'),)))
            st = env['$state']
            return [(cur_kind == 0, Enum('Ok', (Enum('ManifestFile', (N,), 'ParsedFileType'),)), st),
                    (cur_kind == 1, Enum('Ok', (Enum('WriteAheadLog', (N,), 'ParsedFileType'),)), st),
                    (cur_kind == 2, Enum('Ok', (Enum('CurrentFile', (), 'ParsedFileType'),)), st),
                    (UGE(cur_kind, 3), Enum('Err', (Opaque('parse-error'),)), st)]
        P[r'FileNameHandler::get_file_type_from_name'] = ftype
        def reader_new(se, env, pc, fs, p, off):
            st = env['$state']
            NotFound = Enum('NotFound', (), 'ErrorKind')
            return [(reader_ok, Enum('Ok', ({'abstract': True, '__ty': 'LogReader'},)), st),
                    (And(Not(reader_ok), reader_nf), Enum('Err', (Enum('IO', ({'kind': 'NotFound', '__ty': 'io::Error'},), 'LogIOError'),)), st),
                    (And(Not(reader_ok), Not(reader_nf)), Enum('Err', (Enum('IO', ({'kind': 'Other', '__ty': 'io::Error'},), 'LogIOError'),)), st)]
        P[r'LogReader::new'] = reader_new
        P[r'std::io::Error::kind'] = lambda se, env, pc, e: lib.one(env, (se.deref(env, e) if isinstance(e, Ref) else e)['kind'])
        P[r'<(?:std::io::)?ErrorKind as PartialEq>::eq'] = lambda se, env, pc, a, b: lib.one(env, BoolVal(_kind(se, env, a) == _kind(se, env, b)))
        def read_record(se, env, pc, rd):
            st = dict(env['$state']); i = st['next']; st['next'] = i + 1
            err = Enum('Err', (Enum('IO', ({'kind': 'Other'},), 'LogIOError'),))
            if i < R: ok = Enum('Ok', (({'record': i}, BoolVal(False)),))
            else: ok = Enum('Ok', (({'record': None}, BoolVal(True)),))
            return [(read_err_at != i, ok, st), (read_err_at == i, err, st)]
        P[r'LogReader::read_record'] = read_record
        def try_from(se, env, pc, b):
            v = se.deref(env, b) if isinstance(b, Ref) else b
            i = v['record']; st = env['$state']
            def opt(k): return recs[i][k]
            outs = []
            # the four optional fields: case split over presence (16 cases) would multiply paths; use symbolic Enum tags instead:
            # the executor's Enum needs a concrete tag, so split.
            import itertools
            for bits in itertools.product((False, True), repeat=4):
                names = ('curr_file_number', 'wal_file_number', 'prev_wal_file_number', 'prev_sequence_number')
                cond = And(parse_ok[i], *[(recs[i][n][0] if b_ else Not(recs[i][n][0])) for n, b_ in zip(names, bits)])
                fields = {n: (Enum('Some', (recs[i][n][1],)) if b_ else Enum('None')) for n, b_ in zip(names, bits)}
                outs.append((cond, Enum('Ok', (mir.mk_struct('VersionChangeManifest', **fields),)), st))
            outs.append((Not(parse_ok[i]), Enum('Err', (Enum('ManifestParse', ({'str': 'bad'},), 'RecoverError'),)), st))
            return outs
        P[r'<VersionChangeManifest as TryFrom<&\[u8\]>>::try_from'] = try_from
        P[r'VersionBuilder::new'] = lambda se, env, pc: lib.one(env, {'abstract': True, '__ty': 'VersionBuilder'})
        def accumulate(se, env, pc, b, m):
            st = _ev(env, ('accumulate',)); return [(None, (), st)]
        P[r'VersionBuilder::accumulate_changes'] = accumulate
        def apply_changes(se, env, pc, b, base, wal, seq, ptrs):
            st = _ev(env, ('apply', wal, seq)); return [(None, {'abstract': True, '__ty': 'Version'}, st)]
        P[r'VersionBuilder::apply_changes'] = apply_changes
        P[r'Version::finalize'] = lib.unit
        P[r'VersionSet::get_current_version'] = lambda se, env, pc, vs: lib.one(env, {'abstract': True, '__ty': 'SharedNode'})
        P[r'VersionSet::release_version'] = lib.unit
        def append(se, env, pc, vs, v):
            st = _ev(env, ('append_new_version',)); return [(None, (), st)]
        P[r'VersionSet::append_new_version'] = append
        P[r'DbOptions::reuse_log_files'] = lambda se, env, pc, o: lib.one(env, reuse)
        P[r'DbOptions::max_file_size'] = lambda se, env, pc, o: lib.one(env, maxsize)
        def get_size(se, env, pc, fs, p):
            st = env['$state']
            return [(size_ok, Enum('Ok', (fsize,)), st), (Not(size_ok), Enum('Err', ({'kind': 'Other'},)), st)]
        P[r'<dyn FileSystem as FileSystem>::get_file_size'] = get_size
        def writer_new(se, env, pc, fs, p, append_mode):
            st = _ev(env, ('open_writer', append_mode))
            return [(writer_ok, Enum('Ok', ({'abstract': True, '__ty': 'LogWriter'},)), st), (Not(writer_ok), Enum('Err', (Enum('IO', ({'kind': 'Other'},), 'LogIOError'),)), st)]
        P[r'LogWriter::new'] = writer_new
        P[r'(?:parking_lot::lock_api::)?Mutex::new'] = lib.ident
        P[r'<RecoverError as From<.*>>::from'] = lambda se, env, pc, e: lib.one(env, Enum('ManifestRead', (e,), 'RecoverError'))
        P[r'<std::io::Error as Into<DBIOError>>::into'] = lambda se, env, pc, e: lib.one(env, Opaque('dbioerr'))
        P[r'<.* as Into<.*>>::into'] = lib.ident

        ex = Exec(mir, S, loop_bound=R + 3, opaque_calls_ok=True)
        c0 = BitVec('vs_curr_file_number', 64)
        vs = mir.mk_struct('VersionSet', options={'abstract': True, '__ty': 'DbOptions'}, file_name_handler='fnh', curr_file_number=c0,
                           manifest_file_number=BitVec('vs_manifest_file_number', 64), prev_sequence_number=bv(0), curr_wal_number=bv(0),
                           prev_wal_number=Enum('None'), maybe_manifest_file=Enum('None'), compaction_pointers='ptrs', filesystem_provider='fs')
        pre.append(ULT(c0, bv(16)))          # a version set that has not been recovered yet starts with small counters

        def k(ret, env, pc, R=R, ex=ex):
            evs = env['$state']['events']
            v = env['$vs']; F = lambda n: v[mir.field('VersionSet', n)]
            # reference: last Some(..) per field over the records read
            def last(kname):
                has, val = BoolVal(False), bv(0)
                for r in recs:
                    val = If(r[kname][0], r[kname][1], val); has = Or(has, r[kname][0])
                return has, val
            hc, vc = last('curr_file_number'); hw, vw = last('wal_file_number'); hp, vp = last('prev_wal_file_number'); hs, vsq = last('prev_sequence_number')
            all_parse = And(*parse_ok) if parse_ok else BoolVal(True)
            no_read_err = UGT(read_err_at, BitVecVal(R, 8))
            cur_good = And(open_ok, Not(cur_empty), cur_nl, cur_kind == 0, reader_ok)
            readable = And(cur_good, all_parse, no_read_err, hc, hw, hs)
            posts = []
            if isinstance(ret, Enum) and ret.tag == 'Ok':
                reused = ret.fields[0]
                mfn, cfn = F('manifest_file_number'), F('curr_file_number')
                mm = F('maybe_manifest_file')
                has_writer = BoolVal(isinstance(mm, Enum) and mm.tag == 'Some')
                posts += [
                    ('recover succeeds although CURRENT / the manifest is unreadable or lacks the next file number, WAL number or last sequence', readable),
                    ('the restored WAL number is not the last one recorded in the manifest', F('curr_wal_number') == vw),
                    ('the restored last sequence is not the last one recorded in the manifest', F('prev_sequence_number') == vsq),
                    ('the version built from the manifest is not installed', BoolVal(('append_new_version',) in evs)),
                    ('not every manifest record is accumulated', BoolVal(len([e for e in evs if e[0] == 'accumulate']) == R)),
                    ('a manifest that is not reused keeps its number: the next manifest would overwrite the file CURRENT names',
                     Or(reused if not isinstance(reused, bool) else BoolVal(reused), And(mfn != N, UGT(mfn, vc)))),
                    ('the next file number does not cover the number given to the new manifest', UGE(cfn, mfn)),
                    ('file numbers recorded as used in the manifest can be handed out again', UGE(cfn, vc)),
                    ('a reused manifest is not the one CURRENT names / has no open writer', Or(Not(reused) if not isinstance(reused, bool) else BoolVal(not reused), And(mfn == N, has_writer))),
                    ('a manifest is reused although reuse is disabled or the file is too large', Or(Not(reused) if not isinstance(reused, bool) else BoolVal(not reused), And(reuse, size_ok, ULT(fsize, maxsize), writer_ok))),
                    ('a manifest that is not reused leaves a writer behind', Or(reused if not isinstance(reused, bool) else BoolVal(reused), Not(has_writer))),
                ]
                pws = F('prev_wal_number')
                if isinstance(pws, Enum):
                    posts.append(('the restored previous WAL number is not the last one recorded', And(hp, pws.fields[0] == vp) if pws.tag == 'Some' else Not(hp)))
            else:
                posts.append(('recover fails on a readable CURRENT and manifest', Not(readable)))
                posts.append(('a failed recover installs a version', BoolVal(('append_new_version',) not in evs)))
            res.cases['R=%d %s %s' % (R, getattr(ret, 'tag', '?'), ','.join(e[0] for e in evs))[:100]] = 1
            for label, post in posts:
                # the freshness argument needs the writer-side fact that the manifest named by CURRENT got its number before the
                # next-file-number it records was written
                hyp = [ULE(N, vc)] if ('overwrite' in label or 'does not cover' in label) else []
                ex.record_formula(label, pc + hyp, Not(post))
                m = ex.model(And(*(hyp + [Not(post)])))
                if m is not None:
                    res.violations.append({'label': label, 'records': R, 'events': [str(e) for e in evs],
                                           'model': {str(d): str(m[d]) for d in m.decls()},
                                           'replay': ['vs_recover', 'reuse' if 'reused manifest is not' in label else 'noreuse']})
        env = {'$state': {'events': [], 'next': 0}, '$vs': vs}
        ex.top(fn, [Ref('$vs')], env, pre, k)
        res.absorb(ex)
        for pcx, msg, where in ex.panics:
            res.panic_paths += 1
            res.violations.append({'label': 'panic path: ' + msg[:80], 'records': R, 'replay': None, 'confirmed_by': {'reproduced': False, 'detail': 'no native scenario'}})
    res.wall_s = time.time() - t0
    if res.violations: res.status = 'violation'
    return res


def _kind(se, env, a):
    v = se.deref(env, a) if isinstance(a, Ref) else a
    if isinstance(v, Enum): return v.tag
    return v



def o2_6_confirm(v, out):
    """Native: a database is created, filled and closed on an in-memory file system; a VersionSet recovers from it with
    reuse_log_files off; reports the number CURRENT names and the number the version set will use for the next manifest."""
    if out.get('_rc') != 0: return (False, 'native run failed: %s' % out.get('_stderr', '')[-300:])
    lab = v['label']
    if 'overwrite' in lab:
        return (out.get('current_manifest') == out.get('next_manifest'), 'CURRENT names manifest %s, the recovered version set will write manifest %s' % (out.get('current_manifest'), out.get('next_manifest')))
    if 'cover the number' in lab or 'handed out again' in lab:
        try: return (int(out.get('next_file_number', '0')) < int(out.get('next_manifest', '0')) or int(out.get('next_file_number', '0')) < int(out.get('recorded_next_file', '0')), 'next file number %s, new manifest %s, recorded %s' % (out.get('next_file_number'), out.get('next_manifest'), out.get('recorded_next_file')))
        except ValueError: return (False, 'unparsable native output')
    if 'although reuse is disabled' in lab:
        return (out.get('reused') == 'true', 'reuse_log_files=false, recover reports reused=%s' % out.get('reused'))
    return (False, 'no native scenario for this label')
