"""O15.8 Table::read_block_from_disk (what is verified before a block is used) and O15.9 Table::open / read_filter_meta_block
(every block of a table goes through that verification)."""
import time
from z3 import BitVec, BitVecVal, Bool, BoolVal, And, Or, Not, ULT, ULE, UGE, UGT, If
from ..exec import Exec, Enum, Ref, Opaque, Inconclusive, bv
from ..ob import Result, mval
from .. import lib


def o15_8_read_block(mir, tier):
    """Block handle (offset, size) free; the file delivers n bytes (free); stored and computed checksums by contract (free 32-bit
    values: crc over a byte range, unmask of the stored word); compression byte free.  Reference: Ok only if the whole block
    (size + 5 bytes) was delivered, the unmasked stored checksum equals the checksum computed over contents + compression byte
    (bytes [0, size + 1)), and the compression byte is valid; the uncompressed result is bytes [0, size)."""
    fn = mir.method('Table', 'read_block_from_disk')
    res = Result('O15.8 Table::read_block_from_disk', [fn.path], 'handle offset / size (< 2^32), delivered byte count, stored / computed checksum, compression byte free; snappy decoder by contract')
    t0 = time.time()
    S = lib.std_summaries(); P = S['$patterns']
    off, size, got = BitVec('handle_offset', 64), BitVec('handle_size', 64), BitVec('bytes_delivered', 64)
    stored, computed, ctype, read_ok = BitVec('stored_checksum_unmasked', 32), BitVec('computed_checksum', 32), BitVec('compression_byte', 8), Bool('read_ok')
    pre = [ULT(size, bv(1 << 32)), ULT(off, bv(1 << 40))]
    hf = mir.struct_fields('BlockHandle')
    P[r'BlockHandle::get_size'] = lambda se, env, pc, h: lib.one(env, se.deref(env, h)[hf.index('size')])
    P[r'BlockHandle::get_offset'] = lambda se, env, pc, h: lib.one(env, se.deref(env, h)[hf.index('offset')])
    def read_from(se, env, pc, f, buf, at):
        b = se.deref(env, buf) if isinstance(buf, Ref) else buf
        st = dict(env['$state']); st['reads'] = st['reads'] + [(b.get('len') if isinstance(b, dict) else None, at)]
        return [(read_ok, Enum('Ok', (got,)), st), (Not(read_ok), Enum('Err', ({'kind': 'Other', '__ty': 'io::Error'},)), st)]
    P[r'<dyn ReadonlyRandomAccessFile as ReadonlyRandomAccessFile>::read_from'] = read_from
    P[r'<Vec<u8> as DerefMut>::deref_mut'] = lib.ident; P[r'<Vec<u8> as Deref>::deref'] = lib.ident
    def decode_fixed(se, env, pc, sl):
        v = se.deref(env, sl) if isinstance(sl, Ref) else sl
        st = dict(env['$state']); st['checksum_word'] = (v.get('off'), v.get('len')) if isinstance(v, dict) else None
        return [(None, BitVec('stored_checksum_masked', 32), st)]
    P[r'<u32 as FixedInt>::decode_fixed'] = decode_fixed
    P[r'(?:utils::)?crc::unmask_checksum'] = lambda se, env, pc, x: lib.one(env, stored); P[r'unmask_checksum'] = P[r'(?:utils::)?crc::unmask_checksum']
    def checksum(se, env, pc, c, data):
        v = se.deref(env, data) if isinstance(data, Ref) else data
        st = dict(env['$state']); st['checksum_over'] = (v.get('off'), v.get('len')) if isinstance(v, dict) else None
        return [(None, computed, st)]
    P[r'crc::crc32::<impl Crc<u32>>::checksum'] = checksum
    def try_into(se, env, pc, b):
        st = env['$state']
        return [(ctype == 0, Enum('Ok', (Enum('None', (), 'TableFileCompressionType'),)), st), (ctype == 1, Enum('Ok', (Enum('Snappy', (), 'TableFileCompressionType'),)), st),
                (UGT(ctype, BitVecVal(1, 8)), Enum('Err', (Enum('Other', ({'str': 'bad type'},), 'RainDBError'),)), st)]
    P[r'<u8 as TryInto<TableFileCompressionType>>::try_into'] = try_into
    P[r'snap::read::FrameDecoder::new'] = lambda se, env, pc, r: lib.one(env, {'decoder_of': se.deref(env, r) if isinstance(r, Ref) else r})
    P[r'(?:snap::read::)?FrameDecoder::new'] = P[r'snap::read::FrameDecoder::new']
    snap_ok = Bool('snappy_ok')
    def snap_read(se, env, pc, d, buf):
        dv = se.deref(env, d) if isinstance(d, Ref) else d
        st = dict(env['$state']); st['decompressed_from'] = dv.get('decoder_of') if isinstance(dv, dict) else None
        se.store(env, buf, {'len': BitVec('decompressed_len', 64), 'kind': 'decompressed', 'off': bv(0)})
        return [(snap_ok, Enum('Ok', (BitVec('decompressed_len', 64),)), st), (Not(snap_ok), Enum('Err', ({'kind': 'Other', '__ty': 'io::Error'},)), st)]
    P[r'<(?:snap::read::)?FrameDecoder<.*> as (?:std::io::)?Read>::read_to_end'] = snap_read
    P[r'DBIOError::new'] = lambda se, env, pc, *a: lib.one(env, Opaque('dbioerr'))
    P[r'<ReadError as From<.*>>::from'] = lambda se, env, pc, e: lib.one(env, Enum('IO', (e,), 'ReadError'))
    P[r'<std::io::Error as Into<DBIOError>>::into'] = lambda se, env, pc, e: lib.one(env, Opaque('dbioerr'))
    P[r'<Result<.*> as FromResidual<Result<Infallible, .*>>>::from_residual'] = lambda se, env, pc, r: lib.one(env, r)
    ex = Exec(mir, S, loop_bound=3, opaque_calls_ok=True)
    def k(ret, env, pc):
        st = env['$state']; ok = isinstance(ret, Enum) and ret.tag == 'Ok'
        total = size + bv(5)
        posts = []
        reads = st['reads']
        posts.append(('the block is not read with one request for size + 5 bytes at the handle offset', And(BoolVal(len(reads) == 1), reads[0][0] == total, reads[0][1] == off) if len(reads) == 1 and reads[0][0] is not None else BoolVal(False)))
        if ok:
            posts.append(('a block is accepted although it was not delivered completely', And(read_ok, got == total)))
            posts.append(('a block is accepted although its stored checksum differs from the computed one', stored == computed))
            co, cw = st.get('checksum_over'), st.get('checksum_word')
            posts.append(('the checksum is not computed over contents + compression byte (bytes [0, size + 1)) / not compared with the last four bytes', And(co[0] == bv(0), co[1] == size + bv(1), cw[0] == size + bv(1), cw[1] == bv(4)) if co and cw and None not in co + cw else BoolVal(False)))
            posts.append(('a block with an unknown compression byte is accepted', ULE(ctype, BitVecVal(1, 8))))
            b = ret.fields[0]
            if isinstance(b, dict) and b.get('kind') == 'decompressed':
                src = st.get('decompressed_from')
                posts.append(('the decompressed result does not come from bytes [0, size) of the block', And(src['off'] == bv(0), src['len'] == size) if isinstance(src, dict) and 'len' in src else BoolVal(False)))
            else:
                posts.append(('the uncompressed result is not bytes [0, size) of the block', And(b['off'] == bv(0), b['len'] == size) if isinstance(b, dict) and 'len' in b and 'off' in b else BoolVal(False)))
        else:
            posts.append(('a completely delivered block with matching checksum and valid compression byte is rejected', Not(And(read_ok, got == total, stored == computed, Or(ctype == 0, And(ctype == 1, snap_ok))))))
        res.cases['Ok' if ok else 'Err'] = res.cases.get('Ok' if ok else 'Err', 0) + 1
        for label, post, m in ex.check_posts(posts, pc):
            rep = 'stored checksum differs' in label or 'checksum is not computed' in label
            res.violations.append({'label': label, 'ret': str(ret)[:200], 'model': {str(d): str(m[d]) for d in m.decls()}, 'replay': ['table_block_corruption_sweep'] if rep else None, 'confirmed_by': None if rep else {'reproduced': False, 'detail': 'no native scenario for this label'}})
    env = {'$state': {'reads': []}, '$h': mir.mk_struct('BlockHandle', offset=off, size=size)}
    ex.top(fn, [{'abstract': True, '__ty': 'file'}, Ref('$h')], env, pre, k)
    res.absorb(ex)
    for pcx, msg, where in ex.panics:
        ex.solver.push(); ex.solver.add(*pre); ex.solver.add(*[c for c in pcx if not isinstance(c, bool)]); feas = str(ex.solver.check()) == 'sat'; ex.solver.pop()
        if feas and 'overflow' not in msg: res.panic_paths += 1; res.violations.append({'label': 'panic path: ' + msg[:80], 'replay': None, 'confirmed_by': {'reproduced': False, 'detail': 'no native scenario'}})
    res.wall_s = time.time() - t0
    if res.violations: res.status = 'violation'
    return res


def o15_8_confirm(v, out):
    """Native: a table with several data blocks, a filter block, metaindex and index; every byte of the file is inverted in turn;
    the table is reopened and every stored key is looked up: each lookup must fail or return the stored value."""
    if out.get('_rc') != 0: return (True, 'the corruption sweep made the table reader panic (a damaged block was used without verification): %s' % out.get('_stderr', '')[-400:].replace('\n', ' '))
    return (out.get('wrong_answers', '0') != '0', 'single-byte corruption sweep over a table file of %s bytes: %s lookups returned a wrong answer (first: %s)' % (out.get('file_len'), out.get('wrong_answers'), out.get('first_wrong')))


def o15_9_table_open(mir, tier):
    """Table::open with get_data_block_reader_from_disk and read_filter_meta_block inlined; read_block_from_disk (O15.8) by contract.
    Reference: the only unverified read is the 48-byte footer at the end of the file; index, metaindex and filter block are each
    obtained through read_block_from_disk with the handle the footer / metaindex names; a damaged footer, index or metaindex
    block fails the open; a filter block that cannot be read or parsed is dropped (documented degradation), never used."""
    from .. import absiter
    fn = mir.method('Table', 'open')
    res = Result('O15.9 Table::open reads every block through the verifying read', [fn.path, mir.method('Table', 'read_filter_meta_block').path, mir.method('Table', 'get_data_block_reader_from_disk').path],
                 'file length free; footer / index / metaindex / filter reads and parses succeed or fail (free); metaindex with or without a filter entry')
    t0 = time.time()
    for has_filter_entry in (False, True):
        S = lib.std_summaries(); P = S['$patterns']
        flen = BitVec('file_length', 64)
        ok = {n: Bool(n + '_ok') for n in ('len', 'footer_read', 'footer_parse', 'index_read', 'index_parse', 'meta_read', 'meta_parse', 'filter_read', 'filter_parse', 'meta_seek')}
        pre = [ULT(flen, bv(1 << 40))]
        def ev(env, e):
            st = dict(env['$state']); st['events'] = st['events'] + [e]; return st
        P[r'<dyn ReadonlyRandomAccessFile as ReadonlyRandomAccessFile>::len'] = lambda se, env, pc, f: [(ok['len'], Enum('Ok', (flen,)), env['$state']), (Not(ok['len']), Enum('Err', ({'kind': 'Other'},)), env['$state'])]
        P[r'<Box<dyn ReadonlyRandomAccessFile> as Deref>::deref'] = lib.ident
        def read_from(se, env, pc, f, buf, at):
            b = se.deref(env, buf) if isinstance(buf, Ref) else buf
            st = ev(env, ('raw_read', b.get('len') if isinstance(b, dict) else None, at))
            return [(ok['footer_read'], Enum('Ok', (bv(48),)), st), (Not(ok['footer_read']), Enum('Err', ({'kind': 'Other'},)), st)]
        P[r'<dyn ReadonlyRandomAccessFile as ReadonlyRandomAccessFile>::read_from'] = read_from
        P[r'<Vec<u8> as DerefMut>::deref_mut'] = lib.ident
        P[r'DbOptions::block_cache'] = lambda se, env, pc, o: lib.one(env, {'abstract': True, '__ty': 'cache'})
        P[r'<Arc<dyn (?:utils::cache::)?Cache<.*>> as Deref>::deref'] = lib.ident
        P[r'<dyn (?:utils::cache::)?Cache<.*> as (?:utils::cache::)?Cache<.*>>::new_id'] = lambda se, env, pc, c: lib.one(env, BitVec('cache_id', 64))
        footer = {'abstract': True, '__ty': 'Footer'}
        P[r'<Footer as TryFrom<&Vec<u8>>>::try_from'] = lambda se, env, pc, b: [(ok['footer_parse'], Enum('Ok', (dict(footer),)), env['$state']), (Not(ok['footer_parse']), Enum('Err', (Enum('Footer', (Opaque('e'),), 'ReadError'),)), env['$state'])]
        P[r'Footer::get_index_handle'] = lambda se, env, pc, f: lib.one(env, {'handle': 'index'})
        P[r'Footer::get_metaindex_handle'] = lambda se, env, pc, f: lib.one(env, {'handle': 'metaindex'})
        def read_block(se, env, pc, f, h):
            hv = se.deref(env, h) if isinstance(h, Ref) else h; which = hv.get('handle')
            st = ev(env, ('verified_read', which)); o = ok[{'index': 'index_read', 'metaindex': 'meta_read', 'filter': 'filter_read'}.get(which, 'index_read')]
            return [(o, Enum('Ok', ({'len': BitVec('len_' + str(which), 64), 'kind': 'block:' + str(which), 'off': bv(0)},)), st), (Not(o), Enum('Err', (Enum('FailedToParse', ({'str': 'crc'},), 'ReadError'),)), st)]
        P[r'(?:table::)?Table::read_block_from_disk'] = read_block
        def block_new(se, env, pc, data):
            kind = data.get('kind') if isinstance(data, dict) else '?'; which = kind.split(':')[-1]
            o = ok['index_parse' if which == 'index' else 'meta_parse']
            return [(o, Enum('Ok', ({'block_reader_of': kind, 'entries': []},)), env['$state']), (Not(o), Enum('Err', (Enum('FailedToParse', ({'str': 'block'},), 'ReadError'),)), env['$state'])]
        P[r'BlockReader::new'] = block_new; P[r'BlockReader::<.*>::new'] = block_new
        P[r'filter_policy::get_filter_block_name'] = lambda se, env, pc, p: lib.one(env, {'str': 'filter.name'}); P[r'get_filter_block_name'] = P[r'filter_policy::get_filter_block_name']
        P[r'DbOptions::filter_policy'] = lambda se, env, pc, o: lib.one(env, {'abstract': True, '__ty': 'policy'})
        P[r'MetaIndexKey::new'] = lambda se, env, pc, s: lib.one(env, {'metakey': True})
        P[r'BlockReader::iter'] = lambda se, env, pc, r: lib.one(env, {'metaiter': True, 'positioned': False})
        def mseek(se, env, pc, it, key):
            iv = dict(se.deref(env, it)); iv['positioned'] = True; se.store(env, it, iv)
            return [(ok['meta_seek'], Enum('Ok', ((),)), env['$state']), (Not(ok['meta_seek']), Enum('Err', (Enum('FailedToParse', ({'str': 'seek'},), 'ReadError'),)), env['$state'])]
        P[r'<BlockIter<MetaIndexKey> as RainDbIterator>::seek'] = mseek
        P[r'<BlockIter<MetaIndexKey> as RainDbIterator>::current'] = lambda se, env, pc, it, hfe=has_filter_entry: lib.one(env, Enum('Some', (({'metakey': True}, {'raw_handle': 'filter'}),)) if hfe else Enum('None'))
        P[r'<BlockHandle as TryFrom<&Vec<u8>>>::try_from'] = lambda se, env, pc, v: lib.one(env, Enum('Ok', ({'handle': (se.deref(env, v) if isinstance(v, Ref) else v).get('raw_handle')},)))
        def fnew(se, env, pc, pol, data):
            st = ev(env, ('filter_reader_from', data.get('kind') if isinstance(data, dict) else str(data)[:30]))
            return [(ok['filter_parse'], Enum('Ok', ({'filter_reader': True},)), st), (Not(ok['filter_parse']), Enum('Err', (Opaque('e'),)), st)]
        P[r'FilterBlockReader::new'] = fnew
        P[r'<Result<.*> as FromResidual<Result<Infallible, .*>>>::from_residual'] = lambda se, env, pc, r: lib.one(env, r)
        P[r'<ReadError as From<.*>>::from'] = lambda se, env, pc, e: lib.one(env, Enum('IO', (e,), 'ReadError'))
        ex = Exec(mir, S, loop_bound=4, opaque_calls_ok=True)
        tf = mir.struct_fields('Table')
        def k(ret, env, pc, has_filter_entry=has_filter_entry, ex=ex):
            evs = env['$state']['events']; okr = isinstance(ret, Enum) and ret.tag == 'Ok'
            raws = [e for e in evs if e[0] == 'raw_read']; ver = [e[1] for e in evs if e[0] == 'verified_read']
            posts = [('a table is opened although its length, footer, index block or metaindex block could not be read and parsed (or refused although they could)',
                      BoolVal(okr) == And(ok['len'], UGE(flen, bv(48)), ok['footer_read'], ok['footer_parse'], ok['index_read'], ok['index_parse'], ok['meta_read'], ok['meta_parse'])),
                     ('bytes other than the footer are read without checksum verification', BoolVal(len(raws) <= 1)),
                     ('the filter block reader is built from bytes that did not pass the verifying block read', BoolVal(all(e[1] == 'block:filter' for e in evs if e[0] == 'filter_reader_from')))]
            if raws: posts.append(('the footer is not read as the last 48 bytes of the file', And(raws[0][1] == bv(48), raws[0][2] == flen - bv(48)) if raws[0][1] is not None else BoolVal(False)))
            if okr:
                t = ret.fields[0]; fb = t[tf.index('maybe_filter_block')]
                has = isinstance(fb, Enum) and fb.tag == 'Some'
                posts.append(('index and metaindex block are not both obtained through the verifying block read', BoolVal('index' in ver and 'metaindex' in ver)))
                posts.append(('a filter block is used although it could not be read, verified or parsed (or dropped although it could)', BoolVal(has) == And(BoolVal(has_filter_entry), ok['meta_seek'], ok['filter_read'], ok['filter_parse'])))
                if has: posts.append(('the filter block is not obtained through the verifying block read', BoolVal('filter' in ver)))
            res.cases['filter_entry=%s %s %s' % (has_filter_entry, 'Ok' if okr else 'Err', ','.join(str(e[1]) if e[0] != 'raw_read' else 'raw' for e in evs))] = 1
            for label, post, m in ex.check_posts(posts, pc):
                rep = 'without checksum verification' in label or 'did not pass the verifying' in label or 'not obtained through' in label
                res.violations.append({'label': label, 'events': [str(e)[:60] for e in evs], 'replay': ['table_block_corruption_sweep'] if rep else None, 'confirmed_by': None if rep else {'reproduced': False, 'detail': 'no native scenario for this label'}})
        ex.top(fn, [{'abstract': True, '__ty': 'DbOptions'}, {'abstract': True, '__ty': 'file'}], {'$state': {'events': []}}, pre, k)
        res.absorb(ex)
        for pcx, msg, where in ex.panics:
            ex.solver.push(); ex.solver.add(*pre); ex.solver.add(*[c for c in pcx if not isinstance(c, bool)]); feas = str(ex.solver.check()) == 'sat'; ex.solver.pop()
            if feas: res.panic_paths += 1; res.violations.append({'label': 'panic path: ' + msg[:80], 'replay': None, 'confirmed_by': {'reproduced': False, 'detail': 'no native scenario'}})
    res.wall_s = time.time() - t0
    if res.violations: res.status = 'violation'
    return res
