"""Obligations on DB methods executed with opaque defaults (unmodelled callees return opaque values, branches on opaque values
are explored both ways): O8.3 (apply_changes reports failures), O6.1 (sequence publication order), lock-state obligations."""
import re, time
from z3 import BitVec, BitVecVal, Bool, BoolVal, And, Or, Not, Implies, ULT, ULE, UGT, UGE, If, ZeroExt, simplify, is_bv
from ..exec import Exec, Enum, Ref, Opaque, Inconclusive, bv
from ..ob import Result, mval
from .. import lib

GUARD = r'<parking_lot::lock_api::MutexGuard<.*> as Deref(?:Mut)?>::deref(?:_mut)?'


def event(name, ret=()):
    def f(se, env, pc, *a):
        st = dict(env['$state']); st['events'] = st['events'] + [(name,) + tuple(x for x in a if is_bv(x))]; return [(None, ret, st)]
    return f


def apply_changes_run(mir, tier, on_path):
    fn = mir.method('DB', 'apply_changes')
    S = lib.std_summaries(); P = S['$patterns']
    room_ok, wal_ok = Bool('make_room_ok'), Bool('wal_append_ok')
    prev, blen = BitVec('prev_sequence_number', 64), BitVec('batch_len', 64)
    P[GUARD] = lib.ptr_deref
    P[r'parking_lot::lock_api::Mutex::lock'] = event('lock', Ref('$g'))
    def room(se, env, pc, *a):
        st = dict(env['$state']); st['events'] = st['events'] + [('make_room_for_write',)]
        return [(room_ok, Enum('Ok', ((),)), st), (Not(room_ok), Enum('Err', (Enum('Write', (Opaque('room'),), 'RainDBError'),)), st)]
    P[r'DB::make_room_for_write'] = room
    P[r'Writer::is_operation_complete'] = lambda se, env, pc, *a: lib.one(env, BoolVal(False))
    P[r'DB::is_first_writer'] = lambda se, env, pc, *a: lib.one(env, BoolVal(True))
    P[r'Arc::ptr_eq'] = lambda se, env, pc, *a: lib.one(env, BoolVal(True))          # single writer: head of the queue is this writer and ends the group
    P[r'VersionSet::get_prev_sequence_number'] = lambda se, env, pc, *a: lib.one(env, prev)
    P[r'Batch::len'] = lambda se, env, pc, *a: lib.one(env, blen)
    P[r'Batch::set_starting_seq_number'] = event('set_starting_seq_number')
    P[r'VersionSet::set_prev_sequence_number'] = event('set_prev_sequence_number')
    P[r'DB::set_bad_database_state'] = event('set_bad_database_state')
    P[r'DB::build_group_commit_batch'] = lambda se, env, pc, *a: lib.one(env, Enum('Ok', (({'abstract': True, '__ty': 'Batch'}, Opaque('last_writer')),)))
    P[r'VecDeque::pop_front'] = lambda se, env, pc, *a: lib.one(env, Enum('Some', (Opaque('writer'),)))
    P[r'VecDeque::is_empty'] = lambda se, env, pc, *a: lib.one(env, BoolVal(True))
    P[r'VecDeque::push_back'] = lib.unit
    P[r'<Result<\(\), RainDBError> as Clone>::clone'] = lib.clone_deep
    P[r'Result::unwrap_err'] = lambda se, env, pc, r: lib.one(env, r.fields[0] if isinstance(r, Enum) else Opaque('err'))
    def wal_append(se, env, pc, w, d):
        st = dict(env['$state']); st['events'] = st['events'] + [('wal_append',)]
        return [(wal_ok, Enum('Ok', ((),)), st), (Not(wal_ok), Enum('Err', (Enum('IO', (Opaque('io'),), 'LogIOError'),)), st)]
    P[r'LogWriter::append'] = wal_append
    P[r'DB::apply_batch_to_memtable'] = event('apply_batch_to_memtable')
    P[r'<Vec<u8> as From<&Batch>>::from'] = lambda se, env, pc, b: lib.one(env, {'len': BitVec('batch_bytes', 64), 'kind': 'batch-bytes'})
    P[r'<RainDBError as From<LogIOError>>::from'] = lambda se, env, pc, e: lib.one(env, Enum('Log', (e,), 'RainDBError'))
    @lib.cps
    def unlocked(se, env, pc, vals, cont):
        guard, clo = vals
        e = dict(env); st = dict(e['$state']); st['events'] = st['events'] + [('unlock',)]; e['$state'] = st
        def back(r, e2, pc2):
            e3 = dict(e2); st2 = dict(e3['$state']); st2['events'] = st2['events'] + [('relock',)]; e3['$state'] = st2
            cont(r, e3, pc2)
        lib.apply_closure(se, e, pc, clo, [], back)
    P[r'parking_lot::lock_api::MutexGuard::unlocked_fair'] = unlocked
    ex = Exec(mir, S, loop_bound=4, opaque_calls_ok=True)
    env = {'$state': {'events': []}, '$db': {'abstract': True, '__ty': 'DB'}, '$g': {'abstract': True, '__ty': 'GuardedDbFields'}}
    ex.top(fn, [Ref('$db'), Opaque('write_options'), Enum('Some', ({'abstract': True, '__ty': 'Batch'},))], env, [ULT(prev, bv(1 << 56)), ULT(blen, bv(1 << 32)), UGT(blen, bv(0))],
           lambda ret, env, pc: on_path(ex, ret, env['$state']['events'], pc, dict(room_ok=room_ok, wal_ok=wal_ok, prev=prev, blen=blen)))
    return ex, fn


def o8_3_apply_changes(mir, tier):
    res = Result('O8.3 DB::apply_changes reports failures', ['DB::apply_changes', 'apply_changes::{closure#0} (inlined)'],
                 'single writer at the head of the queue with a real batch; make_room_for_write and LogWriter::append each succeed or fail (free); other callees opaque')
    t0 = time.time()
    def on_path(ex, ret, evs, pc, v):
        names = [e[0] for e in evs]
        is_ok = BoolVal(isinstance(ret, Enum) and ret.tag == 'Ok')
        posts = [('returns Ok although make_room_for_write failed', Or(Not(is_ok), v['room_ok'])),
                 ('returns Ok although the write-ahead log append failed', Or(Not(is_ok), Not(v['room_ok']), v['wal_ok'])),
                 ('returns Err although every step succeeded', Or(is_ok, Not(And(v['room_ok'], v['wal_ok'])))),
                 ('a failed write-ahead log append does not put the database into the failed state', Or(BoolVal('set_bad_database_state' in names), Not(v['room_ok']), v['wal_ok'])),
                 ('the batch is applied to the memtable although the write-ahead log append failed', Or(BoolVal('apply_batch_to_memtable' not in names), v['wal_ok'])),
                 ('the batch is applied to the memtable before it is appended to the write-ahead log',
                  BoolVal('apply_batch_to_memtable' not in names or ('wal_append' in names and names.index('wal_append') < names.index('apply_batch_to_memtable'))))]
        res.cases[','.join(names)[:150] + ' -> ' + (ret.tag if isinstance(ret, Enum) else '?')] = 1
        for label, post in posts:
            ex.record_formula(label, pc, Not(post))
            m = ex.model(Not(post))
            if m is not None:
                res.violations.append({'label': label, 'events': names, 'model': {k: mval(m, x) for k, x in v.items()},
                                       'replay': ['write_fault', 'wal' if mval(m, v['room_ok']) else 'room']})
    ex, fn = apply_changes_run(mir, tier, on_path)
    res.absorb(ex)
    res.wall_s = time.time() - t0
    if res.violations: res.status = 'violation'
    return res


def o8_3_confirm(v, out):
    """Native: DB on a fault-injecting file system; the WAL append of a put fails; put must not return Ok."""
    if out.get('_rc') != 0: return (False, 'native run failed: %s' % out.get('_stderr', '')[-300:])
    if 'write-ahead log append failed' in v['label'] and 'returns Ok' in v['label']:
        return (out.get('put_result') == 'Ok' and out.get('fault_hit') == 'true', 'native put returned %s while its WAL append failed (fault hit: %s); value readable afterwards: %s' % (out.get('put_result'), out.get('fault_hit'), out.get('get_after')))
    if 'make_room_for_write failed' in v['label']:
        return (out.get('second_put_result') == 'Ok', 'native put after the database entered the failed state returned %s' % out.get('second_put_result'))
    return (False, 'no native scenario for this label')


def o6_1_sequence_publication(mir, tier):
    res = Result('O6.1 sequence numbers of a batch and their publication', ['DB::apply_changes', 'apply_changes::{closure#0} (inlined)'],
                 'single writer at the head of the queue; prev_sequence_number and batch length symbolic; lock / unlock events from Mutex::lock and MutexGuard::unlocked_fair')
    t0 = time.time()
    def on_path(ex, ret, evs, pc, v):
        names = [e[0] for e in evs]
        if 'unlock' not in names: return          # no write attempted on this path
        posts = []
        start = [e for e in evs if e[0] == 'set_starting_seq_number']
        pub = [e for e in evs if e[0] == 'set_prev_sequence_number']
        posts.append(('the batch does not start at prev_sequence_number + 1', And(BoolVal(len(start) == 1), start[0][1] == v['prev'] + bv(1)) if start and len(start[0]) > 1 else BoolVal(False)))
        posts.append(('the published sequence is not prev_sequence_number + batch length', And(BoolVal(len(pub) == 1), pub[0][1] == v['prev'] + v['blen']) if pub and len(pub[0]) > 1 else BoolVal(False)))
        if pub:
            ip = names.index('set_prev_sequence_number')
            posts.append(('the new sequence is published before the batch is in the memtable', BoolVal('relock' in names and names.index('relock') < ip)))
            held = True
            for n in names[:ip]:
                if n == 'unlock': held = False
                if n in ('relock', 'lock'): held = True
            posts.append(('the new sequence is published without holding the database mutex', BoolVal(held)))
        if 'apply_batch_to_memtable' in names:
            ia = names.index('apply_batch_to_memtable')
            posts.append(('the memtable is modified while the database mutex is held by the writer (readers are blocked) or outside the unlocked section',
                          BoolVal('unlock' in names[:ia] and 'relock' not in names[:ia])))
        for label, post in posts:
            ex.record_formula(label, pc, Not(post))
            m = ex.model(Not(post))
            if m is not None: res.violations.append({'label': label, 'events': names, 'replay': ['sched_batch_visibility', 'snapshot']})
        res.cases[','.join(names)[:150]] = 1
    ex, fn = apply_changes_run(mir, tier, on_path)
    res.absorb(ex)
    res.wall_s = time.time() - t0
    if res.violations: res.status = 'violation'
    return res


# =============================================================== lock-state obligations
GUARDV = {'__guard': 'db'}


def lock_summaries(mir):
    S = lib.std_summaries(); P = S['$patterns']
    def add(env, ev):
        st = dict(env['$state']); st['events'] = st['events'] + [ev]; env['$state'] = st
    def lock(se, env, pc, m):
        # which mutex this is has been decided by the call monitor below (it sees the generic arguments of the callee)
        st = env['$state']
        if st.get('locking_db_mutex'):
            return [(None, dict(GUARDV), dict(st, locking_db_mutex=False))]
        return [(None, Opaque('guard of another mutex'), st)]
    P[r'parking_lot::lock_api::Mutex::lock'] = lock
    P[GUARD] = lambda se, env, pc, g: lib.one(env, Ref('$g'))
    def drop_hook(se, env, ty, val):
        if 'MutexGuard' in ty and isinstance(val, dict) and val.get('__guard'): add(env, ('unlock',))
    S['$drop'] = drop_hook
    def memdrop(se, env, pc, v):
        if isinstance(v, dict) and v.get('__guard'): add(env, ('unlock',))
        return lib.one(env, ())
    P[r'(?:std|core)::mem::drop'] = memdrop
    @lib.cps
    def unlocked(se, env, pc, vals, cont):
        guard, clo = vals
        e = dict(env); add(e, ('unlock',))
        def back(r, e2, pc2):
            e3 = dict(e2); add(e3, ('relock',)); cont(r, e3, pc2)
        lib.apply_closure(se, e, pc, clo, [], back)
    P[r'parking_lot::lock_api::MutexGuard::unlocked_fair'] = unlocked
    def reader(what, ret):
        def f(se, env, pc, *a):
            add(env, ('read', what)); return [(None, ret() if callable(ret) else ret, env['$state'])]
        return f
    def seek_key(se, env, pc, key, seq):
        add(env, ('lookup sequence', seq)); return [(None, Opaque('lookup key'), env['$state'])]
    P[r'InternalKey::new_for_seeking'] = seek_key
    P[r'DB::memtable'] = reader('memtable', lambda: Opaque('memtable'))
    P[r'VersionSet::get_current_version'] = reader('current version', lambda: Opaque('version'))
    P[r'VersionSet::get_prev_sequence_number'] = reader('last published sequence', lambda: BitVec('prev_seq', 64))
    def on_call(se, env, raw, vals):
        if re.match(r'parking_lot::lock_api::Mutex::<.*GuardedDbFields>::lock$', raw):
            evs = env['$state']['events']
            if held_at(evs, len(evs)):
                if not hasattr(se, 'relocks'): se.relocks = []
                se.relocks.append(list(evs) + [('lock',)])
            add(env, ('lock',)); env['$state'] = dict(env['$state'], locking_db_mutex=True)
        if 'Arc<Box<dyn MemTable>>' in raw and raw.startswith(('Option::', '<Option<')) and any(x in raw for x in ('::clone', '::is_some', '::as_ref', '::unwrap')):
            add(env, ('read', 'immutable memtable'))
    S['$on_call'] = on_call
    P[r'Condvar::wait'] = lambda se, env, pc, *a: lib.one(env, ())
    return S


def held_at(events, idx):
    held = False
    for e in events[:idx]:
        if e[0] in ('lock', 'relock'): held = True
        elif e[0] == 'unlock': held = False
    return held


def run_db_method(mir, name, args_fn, on_path, loop_bound=3):
    fn = mir.method('DB', name)
    S = lock_summaries(mir)
    ex = Exec(mir, S, loop_bound=loop_bound, opaque_calls_ok=True, max_paths=5000)
    ex.prune_key = lambda env: (held_at(env['$state']['events'], len(env['$state']['events'])), tuple(sorted(set(e for e in env['$state']['events'] if e[0] == 'read'))))
    ex.inline_filter = lambda f: f.path.startswith('db::') and ('<impl at src/db.rs' in f.path) and f.name not in ('open', 'recover', 'remove_obsolete_files')
    env = {'$state': {'events': []}, '$db': {'abstract': True, '__ty': 'DB'}, '$g': {'abstract': True, '__ty': 'GuardedDbFields'}}
    ex.top(fn, [Ref('$db')] + args_fn(), env, [], lambda ret, env, pc: on_path(ex, ret, env['$state']['events'], pc))
    return ex, fn


def o5_1_reads_under_mutex(mir, tier):
    """DB::get and DB::new_iterator read the memtable pointer, the immutable memtable, the current version and the visible
    sequence while the database mutex is held (the documented way to obtain one consistent cut)."""
    res = Result('O5.1 reads capture their sources under the mutex', ['DB::get', 'DB::get::{closure#0}', 'DB::new_iterator'],
                 'lock events from Mutex::lock / MutexGuard::unlocked_fair / guard drops; callees outside impl DB are opaque; branches on opaque values explored both ways')
    t0 = time.time()
    for name, args in (('get', lambda: [mir.mk_struct('ReadOptions', fill_cache=BoolVal(True), snapshot=Enum('None')), {'len': BitVec('klen', 64), 'kind': 'key'}]),
                       ('new_iterator', lambda: [mir.mk_struct('ReadOptions', fill_cache=BoolVal(True), snapshot=Enum('None'))])):
        seen = set()
        def on_path(ex, ret, evs, pc, name=name):
            for i, e in enumerate(evs):
                if e[0] == 'read' and not held_at(evs, i):
                    label = 'DB::%s reads the %s after releasing the database mutex' % (name, e[1])
                    if label in seen: continue
                    seen.add(label)
                    res.violations.append({'label': label, 'events': [' '.join(x) for x in evs[:i + 1]], 'replay': ['sched_get_race'] if name == 'get' and e[1] == 'memtable' else None,
                                           'confirmed_by': None if name == 'get' and e[1] == 'memtable' else {'reproduced': False, 'detail': 'no native schedule for this read'}})
            for e in evs:
                if e[0] == 'lookup sequence' and name == 'get':
                    ok = is_bv(e[1]) and str(e[1]) == 'prev_seq'
                    if not ok:
                        label = 'DB::get without a snapshot does not look up at the last published sequence number'
                        if label not in seen:
                            seen.add(label); res.violations.append({'label': label, 'events': [str(x[0]) for x in evs], 'sequence_used': str(e[1]), 'replay': ['sched_batch_visibility', 'plain']})
            res.checked += 1
            reads = sorted(set(e[1] for e in evs if e[0] == 'read'))
            res.cases['%s reads %s' % (name, reads)] = res.cases.get('%s reads %s' % (name, reads), 0) + 1
        ex, fn = run_db_method(mir, name, args, on_path)
        res.absorb(ex)
        want = {'memtable', 'current version', 'last published sequence'}
        got = set()
        for kk in res.cases:
            if kk.startswith(name + ' reads'):
                for wv in want:
                    if wv in kk: got.add(wv)
        if got != want:
            res.status = 'inconclusive'; res.reason = 'DB::%s: no path reads %s (monitor did not see the accessor calls)' % (name, sorted(want - got))
    res.wall_s = time.time() - t0
    if res.violations: res.status = 'violation'
    return res


def o5_1_confirm(v, out):
    if out.get('_rc') != 0: return (False, 'native run failed: %s' % out.get('_stderr', '')[-300:])
    if v['replay'][0] == 'sched_batch_visibility': return o6_1_confirm(v, out)
    return (out.get('race_get') == 'notfound' and out.get('later_get') == 'v',
            'forced schedule (memtable rotated and flushed while get is in its unlocked section): get returned %s, the same get afterwards %s' % (out.get('race_get'), out.get('later_get')))


def o9_1_no_self_deadlock(mir, tier):
    """No public method acquires the (non-reentrant) database mutex while the executing path already holds it."""
    res = Result('O9.1 no re-lock of the database mutex on one path', ['DB::get_descriptor (NumFilesAtLevel, Stats, SSTables)', 'DB::summarize_compaction_stats', 'DB::get_snapshot', 'DB::release_snapshot', 'DB::compact_range', 'DB::get', 'DB::new_iterator'],
                 'lock events from Mutex::lock / unlocked_fair / guard drops along every path of each method; methods of impl DB are inlined, other callees opaque')
    t0 = time.time()
    dd = {'NumFilesAtLevel': lambda: Enum('NumFilesAtLevel', (BitVec('level', 64),), 'DatabaseDescriptor'), 'Stats': lambda: Enum('Stats', (), 'DatabaseDescriptor'), 'SSTables': lambda: Enum('SSTables', (), 'DatabaseDescriptor')}
    targets = [('get_descriptor', lambda d=d: [dd[d]()], d) for d in dd]
    targets += [('get_snapshot', lambda: [], ''), ('release_snapshot', lambda: [Opaque('snapshot')], ''),
                ('compact_range', lambda: [{0: Enum('None'), 1: Enum('None'), '__ty': 'Range'}], ''),
                ('get', lambda: [mir.mk_struct('ReadOptions', fill_cache=BoolVal(True), snapshot=Enum('None')), {'len': BitVec('klen', 64), 'kind': 'key'}], ''),
                ('new_iterator', lambda: [mir.mk_struct('ReadOptions', fill_cache=BoolVal(True), snapshot=Enum('None'))], '')]
    for name, args, variant in targets:
        seen = set()
        def on_path(ex, ret, evs, pc, name=name, variant=variant):
            for i, e in enumerate(evs):
                if e[0] == 'lock' and held_at(evs, i):
                    label = 'DB::%s%s locks the database mutex while already holding it (self-deadlock)' % (name, '(%s)' % variant if variant else '')
                    if label in seen: continue
                    seen.add(label)
                    res.violations.append({'label': label, 'events': [' '.join(x) for x in evs[:i + 1]], 'expect_hang': True,
                                           'replay': ['descriptor_watchdog', variant] if name == 'get_descriptor' else None})
            res.checked += 1
            res.cases['%s%s' % (name, variant)] = res.cases.get('%s%s' % (name, variant), 0) + 1
        try:
            ex, fn = run_db_method(mir, name, args, on_path, loop_bound=9)
        except Inconclusive as e:
            res.status = 'inconclusive'; res.reason = '%s: %s' % (name, e); continue
        for evs in getattr(ex, 'relocks', [])[:1]:
            label = 'DB::%s%s locks the database mutex while already holding it (self-deadlock)' % (name, '(%s)' % variant if variant else '')
            res.violations.append({'label': label, 'events': [' '.join(x) for x in evs], 'expect_hang': True,
                                   'replay': ['descriptor_watchdog', variant] if name == 'get_descriptor' else None})
        ex.bound_hits = []        # loops over opaque data are cut at the bound; lock events before the cut are still seen
        res.absorb(ex)
        if not res.cases.get('%s%s' % (name, variant)) and not getattr(ex, 'relocks', []):
            res.status = 'inconclusive'; res.reason = 'no finished path for DB::%s' % name
    res.wall_s = time.time() - t0
    if res.violations: res.status = 'violation'
    return res


def o9_1_confirm(v, out):
    return (bool(out.get('_timeout')), 'native call did not return within the watchdog time (deadlock)' if out.get('_timeout') else 'native call returned: %s' % {k: x for k, x in out.items() if not k.startswith('_')})


def o6_1_confirm(v, out):
    """Native: a reader (snapshot + two gets) runs to completion while a two-key batch is half way into the memtable."""
    if out.get('_rc') != 0: return (False, 'native run failed: %s' % out.get('_stderr', '')[-300:])
    return (out.get('partial') == 'true', 'reader paused inside the batch insert observed (k1,k2) = (%s); before the batch (a,a), after it (b,b)' % out.get('observed'))


# =============================================================== O2.4 flush ordering (compact_memtable)
def o2_4_flush_ordering(mir, tier):
    """CompactionWorker::compact_memtable: the immutable memtable is dropped and obsolete files are removed only after the table
    was written AND the manifest edit was logged and applied; every failure puts the database into the failed state and stops."""
    fn = mir.method('CompactionWorker', 'compact_memtable')
    res = Result('O2.4 flush ordering in compact_memtable', [fn.path],
                 'convert_memtable_to_file and log_and_apply each succeed or fail (free), shutdown flag free; other callees opaque')
    t0 = time.time()
    S = lib.std_summaries(); P = S['$patterns']
    conv_ok, apply_ok, shutting = Bool('table_written'), Bool('manifest_logged'), Bool('shutting_down')
    P[GUARD] = lib.ptr_deref
    def add(env, ev):
        st = dict(env['$state']); st['events'] = st['events'] + [ev]; env['$state'] = st
    def conv(se, env, pc, *a):
        add(env, 'convert_memtable_to_file')
        return [(conv_ok, Enum('Ok', ((),)), env['$state']), (Not(conv_ok), Enum('Err', (Opaque('table error'),)), env['$state'])]
    P[r'DB::convert_memtable_to_file'] = conv
    def laa(se, env, pc, *a):
        add(env, 'log_and_apply')
        return [(apply_ok, Enum('Ok', ((),)), env['$state']), (Not(apply_ok), Enum('Err', (Opaque('manifest error'),)), env['$state'])]
    P[r'VersionSet::log_and_apply'] = laa
    def ev(name):
        def f(se, env, pc, *a):
            add(env, name); return [(None, (), env['$state'])]
        return f
    P[r'DB::set_bad_database_state'] = ev('set_bad_database_state')
    P[r'DB::remove_obsolete_files'] = ev('remove_obsolete_files')
    P[r'VersionSet::release_version'] = ev('release_version')
    P[r'VersionSet::get_current_version'] = lambda se, env, pc, *a: lib.one(env, Opaque('version'))
    P[r'Atomic::load'] = lambda se, env, pc, *a: lib.one(env, shutting)
    P[r'Atomic::store'] = ev('atomic_store')
    def on_call(se, env, raw, vals):
        if 'dyn MemTable' in raw and raw.startswith('Option::') and raw.endswith('::take'): add(env, 'drop_immutable_memtable')
    S['$on_call'] = on_call
    ex = Exec(mir, S, loop_bound=4, opaque_calls_ok=True)
    def k(ret, env, pc):
        evs = env['$state']['events']
        def before(a, b): return a in evs and b in evs and evs.index(a) < evs.index(b)
        posts = [('the immutable memtable is dropped although its table file was not written', Or(BoolVal('drop_immutable_memtable' not in evs), conv_ok)),
                 ('the immutable memtable is dropped although the manifest edit was not logged', Or(BoolVal('drop_immutable_memtable' not in evs), And(conv_ok, apply_ok))),
                 ('the immutable memtable is dropped before the manifest edit is logged and applied', BoolVal('drop_immutable_memtable' not in evs or before('log_and_apply', 'drop_immutable_memtable'))),
                 ('obsolete files are removed although the flush did not complete', Or(BoolVal('remove_obsolete_files' not in evs), And(conv_ok, apply_ok))),
                 ('a manifest edit is logged although the table file was not written', Or(BoolVal('log_and_apply' not in evs), conv_ok)),
                 ('a failed flush does not put the database into the failed state', Or(BoolVal('set_bad_database_state' in evs), And(conv_ok, apply_ok))),
                 ('a successful flush keeps the immutable memtable', Or(BoolVal('drop_immutable_memtable' in evs), Not(And(conv_ok, apply_ok, Not(shutting)))))]
        res.cases[','.join(evs)] = res.cases.get(','.join(evs), 0) + 1
        for label, post in posts:
            ex.record_formula(label, pc, Not(post))
            m = ex.model(Not(post))
            if m is not None:
                which = 'table' if not mval(m, conv_ok) else 'manifest'
                res.violations.append({'label': label, 'events': evs, 'model': {'table_written': mval(m, conv_ok), 'manifest_logged': mval(m, apply_ok), 'shutting_down': mval(m, shutting)},
                                       'replay': ['flush_fault', which] if 'before the manifest' not in label else ['sched_flush_visibility']})
    env = {'$state': {'events': []}, '$dbs': {'abstract': True, '__ty': 'PortableDatabaseState'}, '$g': {'abstract': True, '__ty': 'GuardedDbFields'}, '$guard': Ref('$g')}
    ex.top(fn, [Ref('$dbs'), Ref('$guard')], env, [], k)
    res.absorb(ex)
    res.wall_s = time.time() - t0
    if res.violations: res.status = 'violation'
    return res


def o2_4_confirm(v, out):
    if out.get('_rc') != 0: return (False, 'native run failed: %s' % out.get('_stderr', '')[-300:])
    if v['replay'][0] == 'sched_flush_visibility':
        return (out.get('during_flush') != 'v', 'a get issued while the flush is writing the manifest returned %s (expected v)' % out.get('during_flush'))
    lost = out.get('after_fault') != 'v' or out.get('after_reopen') != 'v'
    return (lost, 'flush with an injected %s fault (hit: %s): get afterwards %s, after reopen %s (expected v both times)' % (v['replay'][1], out.get('fault_hit'), out.get('after_fault'), out.get('after_reopen')))
