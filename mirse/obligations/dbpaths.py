"""Obligations on DB methods executed with opaque defaults (unmodelled callees return opaque values, branches on opaque values
are explored both ways): O8.3 (apply_changes reports failures), O6.1 (sequence publication order), lock-state obligations."""
import re, time
from z3 import BitVec, BitVecVal, Bool, BoolVal, And, Or, Not, Implies, ULT, ULE, UGT, UGE, If, ZeroExt, simplify, is_bv
from ..exec import Exec, Enum, Ref, Opaque, Inconclusive, bv
from ..ob import Result, mval
from .. import lib

GUARD = r'<parking_lot::lock_api::MutexGuard<.*> as Deref(?:Mut)?>::deref(?:_mut)?'


def event(name, ret=()):
    def f(se, env, pc, *a):
        st = dict(env['$state']); st['events'] = st['events'] + [(name,) + tuple(x for x in a if is_bv(x))]; return [(None, ret, st)]
    return f


def apply_changes_run(mir, tier, on_path):
    fn = mir.method('DB', 'apply_changes')
    S = lib.std_summaries(); P = S['$patterns']
    room_ok, wal_ok = Bool('make_room_ok'), Bool('wal_append_ok')
    prev, blen = BitVec('prev_sequence_number', 64), BitVec('batch_len', 64)
    P[GUARD] = lib.ptr_deref
    P[r'parking_lot::lock_api::Mutex::lock'] = event('lock', Ref('$g'))
    def room(se, env, pc, *a):
        st = dict(env['$state']); st['events'] = st['events'] + [('make_room_for_write',)]
        return [(room_ok, Enum('Ok', ((),)), st), (Not(room_ok), Enum('Err', (Enum('Write', (Opaque('room'),), 'RainDBError'),)), st)]
    P[r'DB::make_room_for_write'] = room
    P[r'Writer::is_operation_complete'] = lambda se, env, pc, *a: lib.one(env, BoolVal(False))
    P[r'DB::is_first_writer'] = lambda se, env, pc, *a: lib.one(env, BoolVal(True))
    P[r'Arc::ptr_eq'] = lambda se, env, pc, *a: lib.one(env, BoolVal(True))          # single writer: head of the queue is this writer and ends the group
    P[r'VersionSet::get_prev_sequence_number'] = lambda se, env, pc, *a: lib.one(env, prev)
    P[r'Batch::len'] = lambda se, env, pc, *a: lib.one(env, blen)
    P[r'Batch::set_starting_seq_number'] = event('set_starting_seq_number')
    P[r'VersionSet::set_prev_sequence_number'] = event('set_prev_sequence_number')
    P[r'DB::set_bad_database_state'] = event('set_bad_database_state')
    P[r'DB::build_group_commit_batch'] = lambda se, env, pc, *a: lib.one(env, Enum('Ok', (({'abstract': True, '__ty': 'Batch'}, Opaque('last_writer')),)))
    P[r'VecDeque::pop_front'] = lambda se, env, pc, *a: lib.one(env, Enum('Some', (Opaque('writer'),)))
    P[r'VecDeque::is_empty'] = lambda se, env, pc, *a: lib.one(env, BoolVal(True))
    P[r'VecDeque::push_back'] = lib.unit
    P[r'<Result<\(\), RainDBError> as Clone>::clone'] = lib.clone_deep
    P[r'Result::unwrap_err'] = lambda se, env, pc, r: lib.one(env, r.fields[0] if isinstance(r, Enum) else Opaque('err'))
    def wal_append(se, env, pc, w, d):
        st = dict(env['$state']); st['events'] = st['events'] + [('wal_append',)]
        return [(wal_ok, Enum('Ok', ((),)), st), (Not(wal_ok), Enum('Err', (Enum('IO', (Opaque('io'),), 'LogIOError'),)), st)]
    P[r'LogWriter::append'] = wal_append
    P[r'DB::apply_batch_to_memtable'] = event('apply_batch_to_memtable')
    P[r'<Vec<u8> as From<&Batch>>::from'] = lambda se, env, pc, b: lib.one(env, {'len': BitVec('batch_bytes', 64), 'kind': 'batch-bytes'})
    P[r'<RainDBError as From<LogIOError>>::from'] = lambda se, env, pc, e: lib.one(env, Enum('Log', (e,), 'RainDBError'))
    @lib.cps
    def unlocked(se, env, pc, vals, cont):
        guard, clo = vals
        e = dict(env); st = dict(e['$state']); st['events'] = st['events'] + [('unlock',)]; e['$state'] = st
        def back(r, e2, pc2):
            e3 = dict(e2); st2 = dict(e3['$state']); st2['events'] = st2['events'] + [('relock',)]; e3['$state'] = st2
            cont(r, e3, pc2)
        lib.apply_closure(se, e, pc, clo, [], back)
    P[r'parking_lot::lock_api::MutexGuard::unlocked_fair'] = unlocked
    ex = Exec(mir, S, loop_bound=4, opaque_calls_ok=True)
    env = {'$state': {'events': []}, '$db': {'abstract': True, '__ty': 'DB'}, '$g': {'abstract': True, '__ty': 'GuardedDbFields'}}
    ex.top(fn, [Ref('$db'), Opaque('write_options'), Enum('Some', ({'abstract': True, '__ty': 'Batch'},))], env, [ULT(prev, bv(1 << 56)), ULT(blen, bv(1 << 32)), UGT(blen, bv(0))],
           lambda ret, env, pc: on_path(ex, ret, env['$state']['events'], pc, dict(room_ok=room_ok, wal_ok=wal_ok, prev=prev, blen=blen)))
    return ex, fn


def o8_3_apply_changes(mir, tier):
    res = Result('O8.3 DB::apply_changes reports failures', ['DB::apply_changes', 'apply_changes::{closure#0} (inlined)'],
                 'single writer at the head of the queue with a real batch; make_room_for_write and LogWriter::append each succeed or fail (free); other callees opaque')
    t0 = time.time()
    def on_path(ex, ret, evs, pc, v):
        names = [e[0] for e in evs]
        is_ok = BoolVal(isinstance(ret, Enum) and ret.tag == 'Ok')
        posts = [('returns Ok although make_room_for_write failed', Or(Not(is_ok), v['room_ok'])),
                 ('returns Ok although the write-ahead log append failed', Or(Not(is_ok), Not(v['room_ok']), v['wal_ok'])),
                 ('returns Err although every step succeeded', Or(is_ok, Not(And(v['room_ok'], v['wal_ok'])))),
                 ('a failed write-ahead log append does not put the database into the failed state', Or(BoolVal('set_bad_database_state' in names), Not(v['room_ok']), v['wal_ok'])),
                 ('the batch is applied to the memtable although the write-ahead log append failed', Or(BoolVal('apply_batch_to_memtable' not in names), v['wal_ok'])),
                 ('the batch is applied to the memtable before it is appended to the write-ahead log',
                  BoolVal('apply_batch_to_memtable' not in names or ('wal_append' in names and names.index('wal_append') < names.index('apply_batch_to_memtable'))))]
        res.cases[','.join(names)[:150] + ' -> ' + (ret.tag if isinstance(ret, Enum) else '?')] = 1
        for label, post in posts:
            ex.record_formula(label, pc, Not(post))
            m = ex.model(Not(post))
            if m is not None:
                res.violations.append({'label': label, 'events': names, 'model': {k: mval(m, x) for k, x in v.items()},
                                       'replay': ['write_fault', 'wal' if mval(m, v['room_ok']) else 'room']})
    ex, fn = apply_changes_run(mir, tier, on_path)
    res.absorb(ex)
    res.wall_s = time.time() - t0
    if res.violations: res.status = 'violation'
    return res


def o8_3_confirm(v, out):
    """Native: DB on a fault-injecting file system; the WAL append of a put fails; put must not return Ok."""
    if out.get('_rc') != 0: return (False, 'native run failed: %s' % out.get('_stderr', '')[-300:])
    if 'write-ahead log append failed' in v['label'] and 'returns Ok' in v['label']:
        return (out.get('put_result') == 'Ok' and out.get('fault_hit') == 'true', 'native put returned %s while its WAL append failed (fault hit: %s); value readable afterwards: %s' % (out.get('put_result'), out.get('fault_hit'), out.get('get_after')))
    if 'make_room_for_write failed' in v['label']:
        return (out.get('second_put_result') == 'Ok', 'native put after the database entered the failed state returned %s' % out.get('second_put_result'))
    return (False, 'no native scenario for this label')


def o6_1_sequence_publication(mir, tier):
    res = Result('O6.1 sequence numbers of a batch and their publication', ['DB::apply_changes', 'apply_changes::{closure#0} (inlined)'],
                 'single writer at the head of the queue; prev_sequence_number and batch length symbolic; lock / unlock events from Mutex::lock and MutexGuard::unlocked_fair')
    t0 = time.time()
    def on_path(ex, ret, evs, pc, v):
        names = [e[0] for e in evs]
        if 'unlock' not in names: return          # no write attempted on this path
        posts = []
        start = [e for e in evs if e[0] == 'set_starting_seq_number']
        pub = [e for e in evs if e[0] == 'set_prev_sequence_number']
        posts.append(('the batch does not start at prev_sequence_number + 1', And(BoolVal(len(start) == 1), start[0][1] == v['prev'] + bv(1)) if start and len(start[0]) > 1 else BoolVal(False)))
        posts.append(('the published sequence is not prev_sequence_number + batch length', And(BoolVal(len(pub) == 1), pub[0][1] == v['prev'] + v['blen']) if pub and len(pub[0]) > 1 else BoolVal(False)))
        if pub:
            ip = names.index('set_prev_sequence_number')
            posts.append(('the new sequence is published before the batch is in the memtable', BoolVal('relock' in names and names.index('relock') < ip)))
            held = True
            for n in names[:ip]:
                if n == 'unlock': held = False
                if n in ('relock', 'lock'): held = True
            posts.append(('the new sequence is published without holding the database mutex', BoolVal(held)))
        if 'apply_batch_to_memtable' in names:
            ia = names.index('apply_batch_to_memtable')
            posts.append(('the memtable is modified while the database mutex is held by the writer (readers are blocked) or outside the unlocked section',
                          BoolVal('unlock' in names[:ia] and 'relock' not in names[:ia])))
        for label, post in posts:
            ex.record_formula(label, pc, Not(post))
            m = ex.model(Not(post))
            if m is not None: res.violations.append({'label': label, 'events': names, 'replay': ['sched_batch_visibility', 'snapshot']})
        res.cases[','.join(names)[:150]] = 1
    ex, fn = apply_changes_run(mir, tier, on_path)
    res.absorb(ex)
    res.wall_s = time.time() - t0
    if res.violations: res.status = 'violation'
    return res


# =============================================================== lock-state obligations
GUARDV = {'__guard': 'db'}


def lock_summaries(mir):
    S = lib.std_summaries(); P = S['$patterns']
    def add(env, ev):
        st = dict(env['$state']); st['events'] = st['events'] + [ev]; env['$state'] = st
    def lock(se, env, pc, m):
        # which mutex this is has been decided by the call monitor below (it sees the generic arguments of the callee)
        st = env['$state']
        if st.get('locking_db_mutex'):
            return [(None, dict(GUARDV), dict(st, locking_db_mutex=False))]
        return [(None, Opaque('guard of another mutex'), st)]
    P[r'parking_lot::lock_api::Mutex::lock'] = lock
    P[GUARD] = lambda se, env, pc, g: lib.one(env, Ref('$g'))
    def drop_hook(se, env, ty, val):
        if 'MutexGuard' in ty and isinstance(val, dict) and val.get('__guard'): add(env, ('unlock',))
    S['$drop'] = drop_hook
    def memdrop(se, env, pc, v):
        if isinstance(v, dict) and v.get('__guard'): add(env, ('unlock',))
        return lib.one(env, ())
    P[r'(?:std|core)::mem::drop'] = memdrop
    @lib.cps
    def unlocked(se, env, pc, vals, cont):
        guard, clo = vals
        e = dict(env); add(e, ('unlock',))
        def back(r, e2, pc2):
            e3 = dict(e2); add(e3, ('relock',)); cont(r, e3, pc2)
        lib.apply_closure(se, e, pc, clo, [], back)
    P[r'parking_lot::lock_api::MutexGuard::unlocked_fair'] = unlocked
    def reader(what, ret):
        def f(se, env, pc, *a):
            add(env, ('read', what)); return [(None, ret() if callable(ret) else ret, env['$state'])]
        return f
    def seek_key(se, env, pc, key, seq):
        add(env, ('lookup sequence', seq)); return [(None, Opaque('lookup key'), env['$state'])]
    P[r'InternalKey::new_for_seeking'] = seek_key
    P[r'DB::memtable'] = reader('memtable', lambda: Opaque('memtable'))
    P[r'VersionSet::get_current_version'] = reader('current version', lambda: Opaque('version'))
    P[r'VersionSet::get_prev_sequence_number'] = reader('last published sequence', lambda: BitVec('prev_seq', 64))
    def new_snapshot(se, env, pc, sl, seq):
        add(env, ('register snapshot', seq)); return [(None, Opaque('snapshot'), env['$state'])]
    P[r'SnapshotList::new_snapshot'] = new_snapshot
    def on_call(se, env, raw, vals):
        if re.match(r'parking_lot::lock_api::Mutex::<.*GuardedDbFields>::lock$', raw):
            evs = env['$state']['events']
            if held_at(evs, len(evs)):
                if not hasattr(se, 'relocks'): se.relocks = []
                se.relocks.append(list(evs) + [('lock',)])
            add(env, ('lock',)); env['$state'] = dict(env['$state'], locking_db_mutex=True)
        if 'Arc<Box<dyn MemTable>>' in raw and raw.startswith(('Option::', '<Option<')) and any(x in raw for x in ('::clone', '::is_some', '::as_ref', '::unwrap')):
            add(env, ('read', 'immutable memtable'))
    S['$on_call'] = on_call
    P[r'Condvar::wait'] = lambda se, env, pc, *a: lib.one(env, ())
    return S


def held_at(events, idx):
    held = False
    for e in events[:idx]:
        if e[0] in ('lock', 'relock'): held = True
        elif e[0] == 'unlock': held = False
    return held


def run_db_method(mir, name, args_fn, on_path, loop_bound=3):
    fn = mir.method('DB', name)
    S = lock_summaries(mir)
    ex = Exec(mir, S, loop_bound=loop_bound, opaque_calls_ok=True, max_paths=5000)
    ex.lax_mut = True        # only lock events are modelled here; callees outside impl DB are opaque by design (stated in the bounds)
    ex.prune_key = lambda env: (held_at(env['$state']['events'], len(env['$state']['events'])), tuple(sorted(set(e for e in env['$state']['events'] if e[0] == 'read'))))
    ex.inline_filter = lambda f: f.path.startswith('db::') and ('<impl at src/db.rs' in f.path) and f.name not in ('open', 'recover', 'remove_obsolete_files')
    env = {'$state': {'events': []}, '$db': {'abstract': True, '__ty': 'DB'}, '$g': {'abstract': True, '__ty': 'GuardedDbFields'}}
    ex.top(fn, [Ref('$db')] + args_fn(), env, [], lambda ret, env, pc: on_path(ex, ret, env['$state']['events'], pc))
    return ex, fn


def o5_1_reads_under_mutex(mir, tier):
    """DB::get and DB::new_iterator read the memtable pointer, the immutable memtable, the current version and the visible
    sequence while the database mutex is held (the documented way to obtain one consistent cut)."""
    res = Result('O5.1 reads capture their sources under the mutex', ['DB::get', 'DB::get::{closure#0}', 'DB::new_iterator'],
                 'lock events from Mutex::lock / MutexGuard::unlocked_fair / guard drops; callees outside impl DB are opaque; branches on opaque values explored both ways')
    t0 = time.time()
    for name, args in (('get', lambda: [mir.mk_struct('ReadOptions', fill_cache=BoolVal(True), snapshot=Enum('None')), {'len': BitVec('klen', 64), 'kind': 'key'}]),
                       ('new_iterator', lambda: [mir.mk_struct('ReadOptions', fill_cache=BoolVal(True), snapshot=Enum('None'))])):
        seen = set()
        def on_path(ex, ret, evs, pc, name=name):
            for i, e in enumerate(evs):
                if e[0] == 'read' and not held_at(evs, i):
                    label = 'DB::%s reads the %s after releasing the database mutex' % (name, e[1])
                    if label in seen: continue
                    seen.add(label)
                    res.violations.append({'label': label, 'events': [' '.join(x) for x in evs[:i + 1]], 'replay': ['sched_get_race'] if name == 'get' and e[1] == 'memtable' else None,
                                           'confirmed_by': None if name == 'get' and e[1] == 'memtable' else {'reproduced': False, 'detail': 'no native schedule for this read'}})
            for e in evs:
                if e[0] == 'lookup sequence' and name == 'get':
                    ok = is_bv(e[1]) and str(e[1]) == 'prev_seq'
                    if not ok:
                        label = 'DB::get without a snapshot does not look up at the last published sequence number'
                        if label not in seen:
                            seen.add(label); res.violations.append({'label': label, 'events': [str(x[0]) for x in evs], 'sequence_used': str(e[1]), 'replay': ['sched_batch_visibility', 'plain']})
            res.checked += 1
            reads = sorted(set(e[1] for e in evs if e[0] == 'read'))
            res.cases['%s reads %s' % (name, reads)] = res.cases.get('%s reads %s' % (name, reads), 0) + 1
        ex, fn = run_db_method(mir, name, args, on_path)
        res.absorb(ex)
        want = {'memtable', 'current version', 'last published sequence'}
        got = set()
        for kk in res.cases:
            if kk.startswith(name + ' reads'):
                for wv in want:
                    if wv in kk: got.add(wv)
        if got != want:
            res.status = 'inconclusive'; res.reason = 'DB::%s: no path reads %s (monitor did not see the accessor calls)' % (name, sorted(want - got))
    res.wall_s = time.time() - t0
    if res.violations: res.status = 'violation'
    return res


def o5_5_snapshot_capture(mir, tier):
    """DB::get_snapshot: the sequence number a snapshot is registered with is read and registered in ONE critical section of the
    database mutex (otherwise a write plus a compaction can slip in between: the compaction does not know of the snapshot yet and
    drops the entries it is about to pin), and it is the last published sequence number."""
    res = Result('O5.5 a snapshot is registered in the critical section in which its sequence number is read', ['DB::get_snapshot'],
                 'lock events from Mutex::lock / MutexGuard::unlocked_fair / guard drops; SnapshotList::new_snapshot and VersionSet::get_prev_sequence_number by contract (events)')
    t0 = time.time()
    seen = set()
    def on_path(ex, ret, evs, pc):
        kinds = [e[0] if e[0] != 'read' else 'read ' + e[1] for e in evs]
        regs = [i for i, e in enumerate(evs) if e[0] == 'register snapshot']
        reads = [i for i, e in enumerate(evs) if e[0] == 'read' and e[1] == 'last published sequence']
        posts = []
        posts.append(('get_snapshot does not register exactly one snapshot', len(regs) == 1))
        if len(regs) == 1:
            r = regs[0]
            posts.append(('the snapshot is registered without the database mutex', held_at(evs, r)))
            before = [i for i in reads if i < r]
            posts.append(('the snapshot is registered with something else than the last published sequence number', bool(before) and is_bv(evs[r][1]) and str(evs[r][1]) == 'prev_seq'))
            if before:
                i = before[-1]
                same_section = held_at(evs, i) and not any(e[0] in ('unlock', 'lock', 'relock') for e in evs[i:r])
                posts.append(('the database mutex is released between reading the sequence number of a snapshot and registering the snapshot (a write and a compaction in between drop what the snapshot is about to pin)', same_section))
        res.checked += len(posts)
        res.cases[' '.join(kinds)[:150]] = res.cases.get(' '.join(kinds)[:150], 0) + 1
        for label, ok in posts:
            if not ok and label not in seen:
                seen.add(label)
                res.violations.append({'label': label, 'events': kinds, 'replay': ['snapshot_interleave']})
    ex, fn = run_db_method(mir, 'get_snapshot', lambda: [], on_path)
    res.absorb(ex)
    res.wall_s = time.time() - t0
    if res.violations: res.status = 'violation'
    return res


def o5_5_confirm(v, out):
    """Native: a logger parks the thread inside get_snapshot at its first log record (if any) while the key is overwritten and the
    whole range compacted; the snapshot must still read a value of its state."""
    if out.get('_rc') != 0: return (False, 'native run failed: %s' % out.get('_stderr', '')[-300:])
    got = out.get('snapshot_read', '')
    return (got not in ('v1', 'v2'), 'forced interleaving (a put and a full compaction while get_snapshot is between its steps; interleaved: %s): the snapshot reads %s' % (out.get('interleaved'), got))


def o5_1_confirm(v, out):
    if out.get('_rc') != 0: return (False, 'native run failed: %s' % out.get('_stderr', '')[-300:])
    if v['replay'][0] == 'sched_batch_visibility': return o6_1_confirm(v, out)
    return (out.get('race_get') == 'notfound' and out.get('later_get') == 'v',
            'forced schedule (memtable rotated and flushed while get is in its unlocked section): get returned %s, the same get afterwards %s' % (out.get('race_get'), out.get('later_get')))


def o9_1_no_self_deadlock(mir, tier):
    """No public method acquires the (non-reentrant) database mutex while the executing path already holds it."""
    res = Result('O9.1 no re-lock of the database mutex on one path', ['DB::get_descriptor (NumFilesAtLevel, Stats, SSTables)', 'DB::summarize_compaction_stats', 'DB::get_snapshot', 'DB::release_snapshot', 'DB::compact_range', 'DB::get', 'DB::new_iterator'],
                 'lock events from Mutex::lock / unlocked_fair / guard drops along every path of each method; methods of impl DB are inlined, other callees opaque')
    t0 = time.time()
    dd = {'NumFilesAtLevel': lambda: Enum('NumFilesAtLevel', (BitVec('level', 64),), 'DatabaseDescriptor'), 'Stats': lambda: Enum('Stats', (), 'DatabaseDescriptor'), 'SSTables': lambda: Enum('SSTables', (), 'DatabaseDescriptor')}
    targets = [('get_descriptor', lambda d=d: [dd[d]()], d) for d in dd]
    targets += [('get_snapshot', lambda: [], ''), ('release_snapshot', lambda: [Opaque('snapshot')], ''),
                ('compact_range', lambda: [{0: Enum('None'), 1: Enum('None'), '__ty': 'Range'}], ''),
                ('get', lambda: [mir.mk_struct('ReadOptions', fill_cache=BoolVal(True), snapshot=Enum('None')), {'len': BitVec('klen', 64), 'kind': 'key'}], ''),
                ('new_iterator', lambda: [mir.mk_struct('ReadOptions', fill_cache=BoolVal(True), snapshot=Enum('None'))], '')]
    for name, args, variant in targets:
        seen = set()
        def on_path(ex, ret, evs, pc, name=name, variant=variant):
            for i, e in enumerate(evs):
                if e[0] == 'lock' and held_at(evs, i):
                    label = 'DB::%s%s locks the database mutex while already holding it (self-deadlock)' % (name, '(%s)' % variant if variant else '')
                    if label in seen: continue
                    seen.add(label)
                    res.violations.append({'label': label, 'events': [' '.join(x) for x in evs[:i + 1]], 'expect_hang': True,
                                           'replay': ['descriptor_watchdog', variant] if name == 'get_descriptor' else None})
            res.checked += 1
            res.cases['%s%s' % (name, variant)] = res.cases.get('%s%s' % (name, variant), 0) + 1
        try:
            ex, fn = run_db_method(mir, name, args, on_path, loop_bound=9)
        except Inconclusive as e:
            res.status = 'inconclusive'; res.reason = '%s: %s' % (name, e); continue
        for evs in getattr(ex, 'relocks', [])[:1]:
            label = 'DB::%s%s locks the database mutex while already holding it (self-deadlock)' % (name, '(%s)' % variant if variant else '')
            res.violations.append({'label': label, 'events': [' '.join(x) for x in evs], 'expect_hang': True,
                                   'replay': ['descriptor_watchdog', variant] if name == 'get_descriptor' else None})
        ex.bound_hits = []        # loops over opaque data are cut at the bound; lock events before the cut are still seen
        res.absorb(ex)
        if not res.cases.get('%s%s' % (name, variant)) and not getattr(ex, 'relocks', []):
            res.status = 'inconclusive'; res.reason = 'no finished path for DB::%s' % name
    res.wall_s = time.time() - t0
    if res.violations: res.status = 'violation'
    return res


def o9_1_confirm(v, out):
    return (bool(out.get('_timeout')), 'native call did not return within the watchdog time (deadlock)' if out.get('_timeout') else 'native call returned: %s' % {k: x for k, x in out.items() if not k.startswith('_')})


def o6_1_confirm(v, out):
    """Native: a reader (snapshot + two gets) runs to completion while a two-key batch is half way into the memtable."""
    if out.get('_rc') != 0: return (False, 'native run failed: %s' % out.get('_stderr', '')[-300:])
    return (out.get('partial') == 'true', 'reader paused inside the batch insert observed (k1,k2) = (%s); before the batch (a,a), after it (b,b)' % out.get('observed'))


# =============================================================== O2.4 flush ordering (compact_memtable)
def o2_4_flush_ordering(mir, tier):
    """CompactionWorker::compact_memtable: the immutable memtable is dropped and obsolete files are removed only after the table
    was written AND the manifest edit was logged and applied; every failure puts the database into the failed state and stops."""
    fn = mir.method('CompactionWorker', 'compact_memtable')
    res = Result('O2.4 flush ordering in compact_memtable', [fn.path],
                 'convert_memtable_to_file and log_and_apply each succeed or fail (free), shutdown flag free; other callees opaque')
    t0 = time.time()
    S = lib.std_summaries(); P = S['$patterns']
    conv_ok, apply_ok, shutting = Bool('table_written'), Bool('manifest_logged'), Bool('shutting_down')
    P[GUARD] = lib.ptr_deref
    def add(env, ev):
        st = dict(env['$state']); st['events'] = st['events'] + [ev]; env['$state'] = st
    def conv(se, env, pc, *a):
        add(env, 'convert_memtable_to_file')
        return [(conv_ok, Enum('Ok', ((),)), env['$state']), (Not(conv_ok), Enum('Err', (Opaque('table error'),)), env['$state'])]
    P[r'DB::convert_memtable_to_file'] = conv
    def laa(se, env, pc, *a):
        add(env, 'log_and_apply')
        return [(apply_ok, Enum('Ok', ((),)), env['$state']), (Not(apply_ok), Enum('Err', (Opaque('manifest error'),)), env['$state'])]
    P[r'VersionSet::log_and_apply'] = laa
    def ev(name):
        def f(se, env, pc, *a):
            add(env, name); return [(None, (), env['$state'])]
        return f
    P[r'DB::set_bad_database_state'] = ev('set_bad_database_state')
    P[r'DB::remove_obsolete_files'] = ev('remove_obsolete_files')
    P[r'VersionSet::release_version'] = ev('release_version')
    P[r'VersionSet::get_current_version'] = lambda se, env, pc, *a: lib.one(env, Opaque('version'))
    P[r'Atomic::load'] = lambda se, env, pc, *a: lib.one(env, shutting)
    P[r'Atomic::store'] = ev('atomic_store')
    def on_call(se, env, raw, vals):
        if 'dyn MemTable' in raw and raw.startswith('Option::') and raw.endswith('::take'): add(env, 'drop_immutable_memtable')
    S['$on_call'] = on_call
    ex = Exec(mir, S, loop_bound=4, opaque_calls_ok=True)
    def k(ret, env, pc):
        evs = env['$state']['events']
        def before(a, b): return a in evs and b in evs and evs.index(a) < evs.index(b)
        posts = [('the immutable memtable is dropped although its table file was not written', Or(BoolVal('drop_immutable_memtable' not in evs), conv_ok)),
                 ('the immutable memtable is dropped although the manifest edit was not logged', Or(BoolVal('drop_immutable_memtable' not in evs), And(conv_ok, apply_ok))),
                 ('the immutable memtable is dropped before the manifest edit is logged and applied', BoolVal('drop_immutable_memtable' not in evs or before('log_and_apply', 'drop_immutable_memtable'))),
                 ('obsolete files are removed although the flush did not complete', Or(BoolVal('remove_obsolete_files' not in evs), And(conv_ok, apply_ok))),
                 ('a manifest edit is logged although the table file was not written', Or(BoolVal('log_and_apply' not in evs), conv_ok)),
                 ('a failed flush does not put the database into the failed state', Or(BoolVal('set_bad_database_state' in evs), And(conv_ok, apply_ok))),
                 ('a successful flush keeps the immutable memtable', Or(BoolVal('drop_immutable_memtable' in evs), Not(And(conv_ok, apply_ok, Not(shutting)))))]
        res.cases[','.join(evs)] = res.cases.get(','.join(evs), 0) + 1
        for label, post in posts:
            ex.record_formula(label, pc, Not(post))
            m = ex.model(Not(post))
            if m is not None:
                which = 'table' if not mval(m, conv_ok) else 'manifest'
                res.violations.append({'label': label, 'events': evs, 'model': {'table_written': mval(m, conv_ok), 'manifest_logged': mval(m, apply_ok), 'shutting_down': mval(m, shutting)},
                                       'replay': ['flush_fault', which] if 'before the manifest' not in label else ['sched_flush_visibility']})
    env = {'$state': {'events': []}, '$dbs': {'abstract': True, '__ty': 'PortableDatabaseState'}, '$g': {'abstract': True, '__ty': 'GuardedDbFields'}, '$guard': Ref('$g')}
    ex.top(fn, [Ref('$dbs'), Ref('$guard')], env, [], k)
    res.absorb(ex)
    res.wall_s = time.time() - t0
    if res.violations: res.status = 'violation'
    return res


def o2_4_confirm(v, out):
    if out.get('_rc') != 0: return (False, 'native run failed: %s' % out.get('_stderr', '')[-300:])
    if v['replay'][0] == 'sched_flush_visibility':
        return (out.get('during_flush') != 'v', 'a get issued while the flush is writing the manifest returned %s (expected v)' % out.get('during_flush'))
    lost = out.get('after_fault') != 'v' or out.get('after_reopen') != 'v'
    return (lost, 'flush with an injected %s fault (hit: %s): get afterwards %s, after reopen %s (expected v both times)' % (v['replay'][1], out.get('fault_hit'), out.get('after_fault'), out.get('after_reopen')))


# =============================================================== O11.1 remove_obsolete_files
def o11_1_remove_obsolete(mir, tier):
    """DB::remove_obsolete_files deletes exactly: WALs older than the version set's current WAL (except the one being compacted),
    table / temp files that are neither live nor in use, manifests older than the current one - and nothing after a background error."""
    fn = mir.method('DB', 'remove_obsolete_files')
    res = Result('O11.1 DB::remove_obsolete_files deletes exactly the files nobody needs', [fn.path, 'remove_obsolete_files::{closure#0} (inlined)'],
                 'directory listings by contract (quick: 1 WAL-dir file, 1 data-dir file, 2 main-dir files of the kinds expected there plus one foreign kind; thorough: 2/1/2 files of any parsed kind), free numbers; live set = {one free number}, '
                 'tables_in_use = {one free number}; current / previous WAL numbers, the guarded curr_wal_file_number field and the manifest number free')
    t0 = time.time()
    from ..lib2 import install
    kinds = ['WriteAheadLog', 'TableFile', 'ManifestFile', 'TempFile', 'CurrentFile', 'DBLockFile']
    dirs = {'wal': 2, 'data': 1, 'main': 2} if tier == 'thorough' else {'wal': 1, 'data': 1, 'main': 2}
    allowed = {'wal': kinds, 'data': kinds, 'main': kinds} if tier == 'thorough' else {'wal': ['WriteAheadLog', 'TableFile'], 'data': ['TableFile', 'WriteAheadLog'], 'main': ['ManifestFile', 'TempFile', 'CurrentFile']}
    cw, pw, has_pw, field_cw, mf, live, inuse = BitVec('vs_curr_wal', 64), BitVec('vs_prev_wal', 64), Bool('has_prev_wal'), BitVec('guarded_curr_wal_file_number', 64), BitVec('manifest_number', 64), BitVec('live_table', 64), BitVec('table_in_use', 64)
    for bad_state in (False, True):
        S = install(lib.std_summaries()); P = S['$patterns']
        P[GUARD] = lib.ptr_deref
        files = {}
        for d, n in dirs.items():
            for i in range(n): files[(d, i)] = {'path': (d, i), 'num': BitVec('num_%s%d' % (d, i), 64), '__ty': 'PathBuf'}
        def add(env, ev):
            st = dict(env['$state']); st['events'] = st['events'] + [ev]; env['$state'] = st
        # symbolic-number sets
        P[r'HashSet::insert'] = lambda se, env, pc, r, x: (se.store(env, r, {'set': lib2_vals(se, env, r) + [se.deref(env, x) if isinstance(x, Ref) else x]}), lib.one(env, BoolVal(True)))[1]
        P[r'HashSet::contains'] = lambda se, env, pc, r, x: lib.one(env, Or(*[(se.deref(env, x) if isinstance(x, Ref) else x) == y for y in lib2_vals(se, env, r)]) if lib2_vals(se, env, r) else BoolVal(False))
        P[r'<HashSet<u64> as Clone>::clone'] = lib.clone_deep
        P[r'<HashSet<u64> as IntoIterator>::into_iter'] = lambda se, env, pc, s_: lib.one(env, {'it': list(s_['set'])})
        P[r'<std::collections::hash_set::IntoIter<u64> as Iterator>::next'] = lib.it_next
        P[r'HashSet::len'] = lambda se, env, pc, r: lib.one(env, bv(len(lib2_vals(se, env, r))))
        P[r'VersionSet::get_live_files'] = lambda se, env, pc, vs: lib.one(env, {'set': [live]})
        P[r'VersionSet::get_curr_wal_number'] = lambda se, env, pc, vs: lib.one(env, cw)
        P[r'VersionSet::maybe_prev_wal_number'] = lambda se, env, pc, vs: [(has_pw, Enum('Some', (pw,)), env['$state']), (Not(has_pw), Enum('None'), env['$state'])]
        P[r'VersionSet::get_manifest_file_number'] = lambda se, env, pc, vs: lib.one(env, mf)
        P[r'FileNameHandler::get_wal_dir'] = lambda se, env, pc, h: lib.one(env, {'dir': 'wal'})
        P[r'FileNameHandler::get_data_dir'] = lambda se, env, pc, h: lib.one(env, {'dir': 'data'})
        P[r'FileNameHandler::get_db_path'] = lambda se, env, pc, h: lib.one(env, {'dir': 'main'})
        P[r'<Arc<dyn FileSystem> as Deref>::deref'] = lib.ident
        P[r'<PathBuf as Deref>::deref'] = lib.ident
        P[r'PathBuf::as_path'] = lib.ident
        def list_dir(se, env, pc, fs, d):
            dd = se.deref(env, d)['dir']
            return lib.one(env, Enum('Ok', ([files[(dd, i)] for i in range(dirs[dd])],)))
        P[r'<dyn FileSystem as FileSystem>::list_dir'] = list_dir
        P[r'<dyn FileSystem as FileSystem>::is_dir'] = lambda se, env, pc, fs, p: lib.one(env, Enum('Ok', (BoolVal(False),)))
        def file_type(se, env, pc, p):
            f = se.deref(env, p) if isinstance(p, Ref) else p
            outs = []
            for k_ in allowed[f['path'][0]]:
                st = dict(env['$state']); st['kinds'] = dict(st['kinds']); st['kinds'][f['path']] = k_
                val = Enum(k_, (f['num'],) if k_ in ('WriteAheadLog', 'TableFile', 'ManifestFile', 'TempFile') else (), 'ParsedFileType')
                if f['path'] in env['$state']['kinds'] and env['$state']['kinds'][f['path']] != k_: continue
                outs.append((None, Enum('Ok', (val,)), st))
            return outs
        P[r'FileNameHandler::get_file_type_from_name'] = file_type
        def cache_remove(se, env, pc, tc, n):
            add(env, ('evict', n)); return [(None, (), env['$state'])]
        P[r'TableCache::remove'] = cache_remove
        def remove_file(se, env, pc, fs, p):
            f = se.deref(env, p) if isinstance(p, Ref) else p
            add(env, ('remove', f['path'])); return [(None, Enum('Ok', ((),)), env['$state'])]
        P[r'<dyn FileSystem as FileSystem>::remove_file'] = remove_file
        @lib.cps
        def unlocked(se, env, pc, vals, cont):
            guard, clo = vals
            e = dict(env); add(e, ('unlock',))
            def back(r, e2, pc2):
                e3 = dict(e2); add(e3, ('relock',)); cont(r, e3, pc2)
            lib.apply_closure(se, e, pc, clo, [], back)
        P[r'parking_lot::lock_api::MutexGuard::unlocked_fair'] = unlocked
        P[r'<Vec<PathBuf> as IntoIterator>::into_iter'] = lib.into_iter_owned
        P[r'<std::vec::IntoIter<PathBuf> as Iterator>::next'] = lib.it_next
        ex = Exec(mir, S, loop_bound=8, opaque_calls_ok=True)
        ex.prune_key = None
        def k(ret, env, pc, bad_state=bad_state, ex=ex):
            evs = env['$state']['events']; kd = env['$state']['kinds']
            removed = [e[1] for e in evs if e[0] == 'remove']
            posts = []
            if 'unlock' in [e[0] for e in evs]:
                iu = [e[0] for e in evs].index('unlock')
                posts.append(('a file is removed while the database mutex is still held / before the deletion list is complete', BoolVal(all(i > iu for i, e in enumerate(evs) if e[0] == 'remove'))))
            for key, f in files.items():
                kind = kd.get(key)
                is_removed = BoolVal(key in removed)
                if bad_state: spec = BoolVal(False)
                elif kind == 'WriteAheadLog' and key[0] == 'wal': spec = And(ULT(f['num'], cw), Not(And(has_pw, f['num'] == pw)))
                elif kind == 'TableFile' and key[0] == 'data': spec = And(f['num'] != live, f['num'] != inuse)
                elif kind == 'ManifestFile' and key[0] == 'main': spec = ULT(f['num'], mf)
                elif kind == 'TempFile' and key[0] == 'main': spec = And(f['num'] != live, f['num'] != inuse)
                else: spec = BoolVal(False)
                what = {'WriteAheadLog': 'write-ahead log', 'TableFile': 'table file', 'ManifestFile': 'manifest', 'TempFile': 'temp file'}.get(kind, 'file of another kind')
                posts.append(('a %s that is still needed is deleted' % what if not bad_state else 'files are deleted although a background error is recorded', Or(Not(is_removed), spec)))
                posts.append(('an obsolete %s is kept' % what, Or(is_removed, Not(spec))))
            for label, post in posts:
                ex.record_formula(label, pc, Not(post))
                m = ex.model(Not(post), ULT(cw, bv(1000)), ULT(field_cw, bv(1000)), ULT(mf, bv(1000)), ULT(pw, bv(1000)), ULT(live, bv(1000)), ULT(inuse, bv(1000)), *[ULT(f['num'], bv(1000)) for f in files.values()])
                if m is not None:
                    toks = ['%s:%s:%d' % (key[0], kd.get(key, 'none'), mval(m, f['num'])) for key, f in files.items()]
                    res.violations.append({'label': label, 'kinds': {str(a_): b_ for a_, b_ in kd.items()}, 'removed': [str(r_) for r_ in removed],
                                           'replay': ['remove_obsolete', str(mval(m, cw)), str(mval(m, pw)) if mval(m, has_pw) else 'none', str(mval(m, field_cw)), str(mval(m, live)), str(mval(m, inuse)), '1' if bad_state else '0'] + toks})
            res.cases['bad_state=%s' % bad_state] = res.cases.get('bad_state=%s' % bad_state, 0) + 1
        g = mir.mk_struct('GuardedDbFields', maybe_bad_database_state=Enum('Some', (Opaque('error'),)) if bad_state else Enum('None'), tables_in_use={'set': [inuse]},
                          version_set={'abstract': True, '__ty': 'VersionSet'}, curr_wal_file_number=field_cw)
        env = {'$state': {'events': [], 'kinds': {}}, '$g': g, '$guard': Ref('$g'), '$fnh': {'abstract': True}, '$tc': {'abstract': True}}
        ex.top(fn, [Ref('$guard'), 'fs', Ref('$fnh'), Ref('$tc')], env, [], k)
        ex.bound_hits = []
        res.absorb(ex)
    res.wall_s = time.time() - t0
    if res.violations: res.status = 'violation'
    return res


def lib2_vals(se, env, r):
    v = se.deref(env, r) if isinstance(r, Ref) else r
    if isinstance(v, dict) and 'set' in v: return v['set']
    raise Inconclusive('expected a set, got %r' % (v,))


def o11_1_confirm(v, out):
    """Native: DB::remove_obsolete_files on a version set / guarded fields set up with the model's numbers and empty files of the model's kinds."""
    if out.get('_rc') != 0: return (False, 'native run failed: %s' % out.get('_stderr', '')[-300:])
    a = v['replay']; cw = int(a[1]); pw = None if a[2] == 'none' else int(a[2]); live, inuse, bad = int(a[4]), int(a[5]), a[6] == '1'
    problems = []
    remaining = set(out.get('remaining', '').split(',')) if out.get('remaining') else set()
    for tok in a[7:]:
        d, kind, num = tok.split(':'); num = int(num)
        if kind in ('none', 'CurrentFile', 'DBLockFile'): continue
        if (kind, d) not in (('WriteAheadLog', 'wal'), ('TableFile', 'data'), ('ManifestFile', 'main'), ('TempFile', 'main')): continue
        if kind == 'WriteAheadLog': obsolete = num < cw and num != pw
        elif kind == 'ManifestFile': obsolete = num < int(out.get('manifest_number', '0'))
        else: obsolete = num not in (live, inuse)
        if bad: obsolete = False
        present = ('%s:%d' % (kind, num)) in remaining
        if obsolete and present: problems.append('%s %d is obsolete but was kept' % (kind, num))
        if not obsolete and not present: problems.append('%s %d is still needed but was deleted' % (kind, num))
    return (bool(problems), '; '.join(problems) or 'native deletion matches the specification')


# =============================================================== O9.2 compaction_task always releases the waiters
def o9_2_compaction_task(mir, tier):
    """CompactionWorker::compaction_task: on every path (shutting down, failed state, normal) the scheduled flag is cleared and
    ALL waiters of the background-work condition variable are woken before the function returns."""
    fn = mir.method('CompactionWorker', 'compaction_task')
    res = Result('O9.2 compaction_task clears the scheduled flag and wakes all waiters', [fn.path],
                 'shutdown flag, failed state and the result of should_schedule_compaction free; coordinate_compaction opaque')
    t0 = time.time()
    S = lib.std_summaries(); P = S['$patterns']
    P[GUARD] = lib.ptr_deref
    shutting, bad, again = Bool('shutting_down'), Bool('bad_state'), Bool('needs_more_compaction')
    def add(env, ev):
        st = dict(env['$state']); st['events'] = st['events'] + [ev]; env['$state'] = st
    def ev(name, ret=()):
        def f(se, env, pc, *a):
            add(env, name); return [(None, ret, env['$state'])]
        return f
    P[r'parking_lot::lock_api::Mutex::lock'] = lambda se, env, pc, m: lib.one(env, Ref('$g'))
    P[r'Atomic::load'] = lambda se, env, pc, *a: lib.one(env, shutting)
    P[r'CompactionWorker::coordinate_compaction'] = ev('coordinate_compaction')
    P[r'(?:parking_lot::)?Condvar::notify_all'] = ev('notify_all', bv(0))
    P[r'(?:parking_lot::)?Condvar::notify_one'] = ev('notify_one', BoolVal(False))
    P[r'DB::should_schedule_compaction'] = lambda se, env, pc, *a: lib.one(env, again)
    P[r'Option::is_some'] = lambda se, env, pc, r: lib.one(env, bad)
    ex = Exec(mir, S, loop_bound=3, opaque_calls_ok=True)
    flagf = mir.field('GuardedDbFields', 'background_compaction_scheduled')
    def k(ret, env, pc):
        evs = env['$state']['events']
        flag = env['$g'].get(flagf)
        posts = [('a path of the background task returns without waking all waiters (notify_all)', BoolVal('notify_all' in evs)),
                 ('a path of the background task returns with the scheduled flag still set', BoolVal(flag is not None and is_bool_false(flag))),
                 ('compaction work is done although the database is shutting down or in the failed state', Or(BoolVal('coordinate_compaction' not in evs), And(Not(shutting), Not(bad)))),
                 ('the task does not report that more compaction work is needed', (ret == again) if not isinstance(ret, Opaque) else BoolVal(True))]
        res.cases[','.join(evs)] = res.cases.get(','.join(evs), 0) + 1
        for label, post in posts:
            ex.record_formula(label, pc, Not(post))
            m = ex.model(Not(post))
            if m is not None: res.violations.append({'label': label, 'events': evs, 'replay': ['compact_waiters'] if 'waking' in label else None,
                                                     'confirmed_by': None if 'waking' in label else {'reproduced': False, 'detail': 'no native scenario'}})
    env = {'$state': {'events': []}, '$g': mir.mk_struct('GuardedDbFields', background_compaction_scheduled=BoolVal(True)),
           '$dbs': mir.mk_struct('PortableDatabaseState', guarded_db_fields='mutex', is_shutting_down='atomic', background_work_finished_signal='condvar')}
    ex.top(fn, [Ref('$dbs')], env, [], k)
    res.absorb(ex)
    res.wall_s = time.time() - t0
    if res.violations: res.status = 'violation'
    return res


def is_bool_false(v):
    from z3 import is_false, simplify as _s
    try: return is_false(_s(v))
    except Exception: return False


def o9_2_confirm(v, out):
    """Native: three threads call compact_range concurrently (each waits on the background-work condition variable); with a
    lost wake-up one of them never returns (watchdog)."""
    hung = bool(out.get('_timeout')) or out.get('all_returned') == 'false'
    return (hung, 'three concurrent compact_range calls: %s' % ('at least one never returned (lost wake-up)' if hung else 'all returned'))


# =============================================================== O5.2 group commit
def o5_2_group_commit(mir, tier):
    """DB::build_group_commit_batch: the writers whose batches are merged into the group are exactly the queue prefix that ends
    with the returned last writer - a writer that is acknowledged with the group's result has had its batch written."""
    fn = mir.method('DB', 'build_group_commit_batch')
    NW = 3 if tier == 'quick' else 4
    res = Result('O5.2 DB::build_group_commit_batch', [fn.path], 'writer queue of 1..%d writers; batch sizes, synchronous flags and presence of a batch free' % NW)
    t0 = time.time()
    for n in range(1, NW + 1):
        S = lib.std_summaries(); P = S['$patterns']
        P[GUARD] = lib.ptr_deref
        sizes = [BitVec('batch_size%d' % i, 64) for i in range(n)]; sync = [Bool('sync%d' % i) for i in range(n)]; has = [Bool('has_batch%d' % i) for i in range(n)]
        pre = [ULT(s_, bv(1 << 40)) for s_ in sizes] + [has[0]]
        writers = [{'writer': i, '__ty': 'Writer'} for i in range(n)]
        P[r'VecDeque::is_empty'] = lambda se, env, pc, q: lib.one(env, BoolVal(False))
        P[r'VecDeque::front'] = lambda se, env, pc, q: lib.one(env, Enum('Some', (Ref('$w0'),)))
        P[r'VecDeque::iter'] = lambda se, env, pc, q: lib.one(env, {'it': [Ref('$w%d' % i) for i in range(n)]})
        P[r'<std::collections::vec_deque::Iter<.*> as Iterator>::next'] = lib.it_next
        P[r'<std::collections::vec_deque::Iter<.*> as IntoIterator>::into_iter'] = lib.ident
        P[r'<Arc<Writer> as Deref>::deref'] = lib.ptr_deref
        def maybe_batch(se, env, pc, w):
            i = se.deref(env, w)['writer']
            return [(has[i], Enum('Some', ({'batch_of': i, '__ty': 'Batch'},)), env['$state']), (Not(has[i]), Enum('None'), env['$state'])]
        P[r'Writer::maybe_batch'] = maybe_batch
        P[r'Writer::is_synchronous_write'] = lambda se, env, pc, w: lib.one(env, sync[se.deref(env, w)['writer']])
        P[r'Batch::get_approximate_size'] = lambda se, env, pc, b: lib.one(env, sizes[se.deref(env, b)['batch_of']])
        P[r'Batch::new'] = lambda se, env, pc: lib.one(env, {'group': True, '__ty': 'Batch'})
        def append(se, env, pc, g, b):
            st = dict(env['$state']); st['appended'] = st['appended'] + [se.deref(env, b)['batch_of']]; return [(None, (), st)]
        P[r'Batch::append_batch'] = append
        P[r'Arc::clone'] = lib.deref1
        ex = Exec(mir, S, loop_bound=n + 3, opaque_calls_ok=True)
        def k(ret, env, pc, n=n, ex=ex):
            app = env['$state']['appended']
            if not (isinstance(ret, Enum) and ret.tag == 'Ok'):
                res.violations.append({'label': 'building a group commit fails although the queue head has a batch', 'replay': None, 'confirmed_by': {'reproduced': False, 'detail': ''}}); return
            last = ret.fields[0][1]
            li = last['writer'] if isinstance(last, dict) and 'writer' in last else None
            posts = [('the returned last writer is not a writer of the queue', BoolVal(li is not None))]
            if li is not None:
                posts.append(('a writer acknowledged with the group (at or before the returned last writer) did not have its batch merged into the group', And(*[Or(Not(has[i]), BoolVal(i in app)) for i in range(li + 1)])))
                posts.append(('a batch behind the returned last writer was merged into the group (it will be written twice)', BoolVal(all(i <= li for i in app))))
                posts.append(('batches are merged out of queue order', BoolVal(app == sorted(app) and len(set(app)) == len(app))))
            res.cases['n=%d appended=%s last=%s' % (n, app, li)] = 1
            for label, post in posts:
                ex.record_formula(label, pc, Not(post))
                m = ex.model(Not(post))
                if m is not None: res.violations.append({'label': label, 'appended': app, 'last_writer': li, 'sizes': [mval(m, x) for x in sizes], 'replay': ['sched_group_commit']})
        env = {'$state': {'appended': []}, '$db': {'abstract': True, '__ty': 'DB'}, '$g': mir.mk_struct('GuardedDbFields', writer_queue={'abstract': True, '__ty': 'VecDeque'}), '$guard': Ref('$g')}
        for i in range(n): env['$w%d' % i] = writers[i]
        ex.top(fn, [Ref('$db'), Ref('$guard')], env, pre, k)
        res.absorb(ex)
    res.wall_s = time.time() - t0
    if res.violations: res.status = 'violation'
    return res


def o5_2_confirm(v, out):
    """Native: while a writer is in its unlocked section two more writers queue up (a small put, then a 200 KiB put that does not
    fit into the small writer's group); every acknowledged put must be readable."""
    if out.get('_rc') != 0: return (False, 'native run failed: %s' % out.get('_stderr', '')[-300:])
    bad = out.get('big_put') == 'ok' and out.get('big_get') != 'found'
    return (bad, 'queued 200 KiB put returned %s, get afterwards: %s; small put %s / %s' % (out.get('big_put'), out.get('big_get'), out.get('small_put'), out.get('small_get')))
