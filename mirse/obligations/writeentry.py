"""O6.4 the public write entry points hand ONE batch to the writer queue; a forced flush goes through the writer queue too (C06, C05)."""
import time, itertools
from z3 import BitVec, Bool, BoolVal, And, Or, Not, ULT
from ..exec import Exec, Enum, Ref, Opaque, Inconclusive, bv
from ..ob import Result, mval
from .. import lib


def o6_4_write_entry_points(mir, tier):
    """DB::put / DB::delete / DB::apply with Batch::new / add_put / add_delete inlined and DB::apply_changes by contract (it records
    its arguments and returns a free result).  apply: batches of 0..3 (4) operations whose element sizes are free (< 2^40: small
    and huge batches alike).  Reference: apply_changes is called exactly once, with the caller's options and ONE batch holding
    exactly the caller's operations in order (all-or-nothing visibility is a property of one trip through the writer queue: one
    WAL record, one sequence publication); the result is returned unchanged.
    DB::force_memtable_compaction (behind compact_range): the rotation is requested through apply_changes with no batch - the
    writer queue is what keeps a memtable from being rotated while another writer is inserting a batch into it - and
    make_room_for_write is never called directly; then it waits (environment at the condition variable: the flush finishes or
    fails) and returns Ok iff the rotated memtable is gone, else the recorded error."""
    put = mir.method('DB', 'put'); dele = mir.method('DB', 'delete'); app = mir.method('DB', 'apply'); fmc = mir.method('DB', 'force_memtable_compaction')
    NMAX = 3 if tier == 'quick' else 4
    res = Result('O6.4 write entry points and forced flush use the writer queue once', [put.path, dele.path, app.path, fmc.path, 'Batch::new / add_put / add_delete / add_operation, BatchElement::new (inlined)'],
                 'put / delete with free key and value; apply with 0..%d operations of free sizes (< 2^40); apply_changes by contract; forced flush: rotated memtable present or not, background error or not, the flush finishes or fails at each wait' % NMAX)
    t0 = time.time()
    ef = mir.struct_fields('BatchElement'); bf = mir.struct_fields('Batch'); gf = mir.struct_fields('GuardedDbFields')
    ok = Bool('apply_changes_ok')
    def common():
        S = lib.std_summaries(); P = S['$patterns']
        lib.combinator_summaries(P)
        def apply_changes(se, env, pc, db, opts, batch):
            st = dict(env['$state']); b = batch
            if isinstance(b, Enum) and b.tag == 'Some':
                inner = b.fields[0]
                while isinstance(inner, Ref): inner = se.deref(env, inner)
                b = Enum('Some', (inner,))
            st['calls'] = st['calls'] + [(opts, b)]
            return [(ok, Enum('Ok', ((),)), st), (Not(ok), Enum('Err', (Enum('Write', ({'str': 'queue'},), 'RainDBError'),)), st)]
        P[r'DB::apply_changes'] = apply_changes
        def mrw(se, env, pc, *a):
            st = dict(env['$state']); st['direct_rotations'] = st['direct_rotations'] + 1
            return [(None, Enum('Ok', ((),)), st)]
        P[r'DB::make_room_for_write'] = mrw
        P[r'Vec::len'] = lambda se, env, pc, v: lib.one(env, _len(se, env, v))
        P[r'<Vec<u8> as Deref>::deref'] = lib.ident
        P[r'<WriteOptions as Clone>::clone'] = lib.deref1; P[r'<BatchElement as Clone>::clone'] = lib.clone_deep
        def take_batch(se, env, pc, r):
            v = se.deref(env, r)
            if not (isinstance(v, dict) and v.get('__ty') == 'Batch'): raise Inconclusive('mem::take of %r' % (v,))
            se.store(env, r, mir.mk_struct('Batch', starting_seq_number=Enum('None'), operations=[])); return lib.one(env, v)
        P[r'(?:std|core)::mem::take'] = take_batch
        return S, P
    def _len(se, env, v):
        x = se.deref(env, v) if isinstance(v, Ref) else v
        while isinstance(x, Ref): x = se.deref(env, x)
        if isinstance(x, dict) and 'len' in x: return x['len']
        if isinstance(x, list): return bv(len(x))
        raise Inconclusive('len of %r' % (x,))
    def same_ops(got, want):
        if len(got) != len(want): return BoolVal(False)
        cs = []
        for g, w in zip(got, want):
            gk, wk = g[ef.index('user_key')], w[ef.index('user_key')]
            cs.append(And(g[ef.index('operation')] == w[ef.index('operation')] if not isinstance(g[ef.index('operation')], Enum) else BoolVal(g[ef.index('operation')].tag == w['__optag']),
                          BoolVal(isinstance(gk, dict) and gk.get('kind') == wk.get('kind'))))
            gv, wv = g[ef.index('value')], w[ef.index('value')]
            cs.append(BoolVal(isinstance(gv, Enum) and gv.tag == wv.tag and (gv.tag == 'None' or (isinstance(gv.fields[0], dict) and gv.fields[0].get('kind') == wv.fields[0].get('kind')))))
        return And(*cs) if cs else BoolVal(True)
    opts = mir.mk_struct('WriteOptions', synchronous=Bool('synchronous'))
    def check(kind, want_ops, ex, replay):
        def k(ret, env, pc):
            calls = env['$state']['calls']
            posts = [('a public write does not make exactly one trip through the writer queue (its operations are committed as several independent writes, or not at all)', BoolVal(len(calls) == 1))]
            if len(calls) >= 1:
                o, b = calls[0]
                is_some = isinstance(b, Enum) and b.tag == 'Some'
                posts.append(('the batch handed to the writer queue does not hold exactly the caller\'s operations in order', same_ops(b.fields[0][bf.index('operations')], want_ops) if is_some else BoolVal(False)))
                posts.append(('the caller\'s write options are not passed on', BoolVal(isinstance(o, dict) and o.get(0) is opts[0])))
            posts.append(('the result of the write is not the result of its trip through the writer queue', BoolVal(isinstance(ret, Enum)) if not isinstance(ret, Enum) else (ok if ret.tag == 'Ok' else Not(ok))))
            res.cases['%s -> %d trips' % (kind, len(calls))] = 1
            for label, post, m in ex.check_posts(posts, pc):
                res.violations.append({'label': label, 'entry': kind, 'trips': len(calls), 'replay': replay})
        return k
    def elem(i, is_put, size):
        e = mir.mk_struct('BatchElement', operation=Enum('Put' if is_put else 'Delete', (), 'Operation'), user_key={'len': BitVec('klen%d' % i, 64), 'kind': 'key%d' % i, 'off': bv(0)},
                          value=Enum('Some', ({'len': BitVec('vlen%d' % i, 64), 'kind': 'value%d' % i, 'off': bv(0)},)) if is_put else Enum('None'), size=size)
        e['__optag'] = 'Put' if is_put else 'Delete'; return e
    # put / delete
    for kind, fn in (('put', put), ('delete', dele)):
        S, P = common(); ex = Exec(mir, S, loop_bound=4)
        key = {'len': BitVec('klen0', 64), 'kind': 'key0', 'off': bv(0)}; val = {'len': BitVec('vlen0', 64), 'kind': 'value0', 'off': bv(0)}
        want = [elem(0, kind == 'put', bv(0))]
        args = [Ref('$db'), opts, key] + ([val] if kind == 'put' else [])
        ex.top(fn, args, {'$state': {'calls': [], 'direct_rotations': 0}, '$db': {'abstract': True, '__ty': 'DB'}}, [ULT(key['len'], bv(1 << 30)), ULT(val['len'], bv(1 << 30))], check(kind, want, ex, ['large_batch_visibility']))
        res.absorb(ex)
    # apply
    for n in range(0, NMAX + 1):
        for kinds in ([tuple([True] * n)] if tier == 'quick' and n > 1 else itertools.product((True, False), repeat=n)):
            S, P = common(); ex = Exec(mir, S, loop_bound=n + 4)
            sizes = [BitVec('element_size%d' % i, 64) for i in range(n)]
            ops = [elem(i, kinds[i], sizes[i]) for i in range(n)]
            batch = mir.mk_struct('Batch', starting_seq_number=Enum('None'), operations=list(ops))
            ex.top(app, [Ref('$db'), opts, batch], {'$state': {'calls': [], 'direct_rotations': 0}, '$db': {'abstract': True, '__ty': 'DB'}}, [ULT(s, bv(1 << 40)) for s in sizes],
                   check('apply(%d ops)' % n, ops, ex, ['large_batch_visibility']))
            res.absorb(ex)
    # forced flush
    I_IMM, I_BAD = gf.index('maybe_immutable_memtable'), gf.index('maybe_bad_database_state')
    for imm_after in (False, True):
        S, P = common()
        P[r'parking_lot::lock_api::Mutex::lock'] = lambda se, env, pc, m: lib.one(env, Ref('$g'))
        P[r'<parking_lot::lock_api::MutexGuard<.*> as Deref(?:Mut)?>::deref(?:_mut)?'] = lib.ptr_deref
        P[r'<Arc<parking_lot::lock_api::Mutex<.*>> as Deref>::deref'] = lib.ident
        P[r'<Arc<parking_lot::Condvar> as Deref>::deref'] = lib.ident
        P[r'<WriteOptions as Default>::default'] = lambda se, env, pc: lib.one(env, mir.mk_struct('WriteOptions', synchronous=BoolVal(False)))
        P[r'<RainDBError as Clone>::clone'] = lib.deref1
        def wait(se, env, pc, cv, g):
            st = dict(env['$state']); i = st['waits']; st['waits'] = i + 1
            gv = dict(se.deref(env, Ref('$g'))); fails = Bool('flush%d_fails' % i)
            g_done = dict(gv); g_done[I_IMM] = Enum('None')
            g_bad = dict(gv); g_bad[I_BAD] = Enum('Some', (Enum('IO', ({'str': 'flush'},), 'RainDBError'),))
            return [(Not(fails), (), st, [(Ref('$g'), g_done)]), (fails, (), st, [(Ref('$g'), g_bad)])]
        P[r'(?:parking_lot::)?Condvar::wait'] = wait
        ex = Exec(mir, S, loop_bound=5, opaque_calls_ok=True)
        g = mir.mk_struct('GuardedDbFields', maybe_bad_database_state=Enum('None'), maybe_immutable_memtable=Enum('Some', ({'abstract': True, '__ty': 'MemTable'},)) if imm_after else Enum('None'))
        db = mir.mk_struct('DB', guarded_fields=Ref('$g'), background_work_finished_signal='cv', options={'abstract': True})
        def kf(ret, env, pc, ex=ex):
            st = env['$state']; calls = st['calls']; gv = ex.deref(env, Ref('$g'))
            queued = len(calls) == 1 and isinstance(calls[0][1], Enum) and calls[0][1].tag == 'None'
            posts = [('a forced flush does not go through the writer queue (apply_changes with no batch): the memtable can be rotated while another writer is inserting a batch into it', BoolVal(queued and st['direct_rotations'] == 0))]
            if isinstance(ret, Enum):
                gone = gv[I_IMM].tag == 'None'
                # when the queued request itself failed the error is returned at once
                posts.append(('a forced flush reports success although the rotated memtable was not flushed (or an error although it was)',
                              Or(And(Not(ok), BoolVal(ret.tag == 'Err')), And(ok, BoolVal((ret.tag == 'Ok') == gone))) if queued else BoolVal(True)))
            res.cases['forced flush imm=%s waits=%d -> %s' % (imm_after, st['waits'], getattr(ret, 'tag', '?'))] = 1
            for label, post, m in ex.check_posts(posts, pc):
                res.violations.append({'label': label, 'entry': 'force_memtable_compaction', 'replay': ['flush_request_during_batch']})
        ex.top(fmc, [Ref('$db')], {'$state': {'calls': [], 'direct_rotations': 0, 'waits': 0}, '$db': db, '$g': g}, [], kf)
        if ex.bound_hits:
            res.violations.append({'label': 'a forced flush never stops waiting although the flush finished or failed', 'replay': None, 'confirmed_by': {'reproduced': False, 'detail': 'no native scenario'}}); ex.bound_hits = []
        res.absorb(ex)
    for pcx, msg, where in getattr(ex, 'panics', []):
        pass
    res.wall_s = time.time() - t0
    if res.violations: res.status = 'violation'
    return res


def o6_4_confirm(v, out):
    """Native (forced schedules at the memtable.after_insert point): a reader during the 5th insert of a 1.8 MiB batch; a
    compact_range call during the 2nd insert of a 4-key batch."""
    if out.get('_rc') != 0: return (False, 'native run failed: %s' % out.get('_stderr', '')[-300:])
    if v['replay'][0] == 'flush_request_during_batch':
        return ('false' in out.get('visible', ''), 'native: compact_range called while a 4-key batch was being inserted; afterwards the keys of the acknowledged batch are visible: %s' % out.get('visible'))
    return ('true' in out.get('during', '') or 'false' in out.get('after', ''), 'native: a reader during the 5th insert of a six-key batch of 300 KiB values saw %s; afterwards %s' % (out.get('during'), out.get('after')))
