"""Which obligations exist, which property each serves, how counterexamples are confirmed natively."""
from .obligations import version, table, versionset, logs, iters, compaction, dbpaths, builder

ASSUMPTIONS = [
    'Engine B: the MIR executor (mirse/exec.py) and the std/dependency summaries (mirse/lib.py) are trusted; every counterexample is replayed on the native build, passing witnesses are replayed differentially',
    'Engine B: user keys are abstracted to 16-bit values under unsigned order (exact for code that only compares and copies keys); sequence numbers, sizes, file numbers are free 64-bit values',
    'bounded: every obligation states its own bound (number of files / entries / fragments / loop iterations); anything larger is outside the claim',
    'dev profile semantics (overflow checks on); atomics and locks executed sequentially; no thread interleavings',
    'the step from obligations to the whole-system property is an informal argument (DESIGN.md section 4)',
]

OBLIGATIONS = {
    'O7.1': {'engine': 'B', 'title': 'key range of several files is their hull', 'run': version.o7_1_key_range,
             'confirm': version.o7_1_confirm, 'witness_ok': version.o7_1_witness_ok},
    'O1.3': {'engine': 'B', 'title': 'binary search over a sorted disjoint level finds the first file whose largest key is >= target', 'run': version.o1_3_find_file,
             'confirm': version.o1_3_confirm, 'witness_ok': version.o1_3_witness_ok},
    'O10.3': {'engine': 'B', 'title': 'file comparator (smallest key, then file number) is a total order', 'run': version.o10_3_comparator,
              'confirm': version.o10_3_confirm, 'witness_ok': version.o10_3_witness_ok},
    'O7.2': {'engine': 'B', 'title': 'overlapping compaction inputs: superset of the overlapping files, closed under level-0 range expansion', 'run': version.o7_2_overlapping_inputs,
             'confirm': version.o7_2_confirm, 'witness_ok': version.o7_2_witness_ok},
    'O7.3': {'engine': 'B', 'title': 'boundary files: no user key is split between compaction inputs and the rest of the level', 'run': version.o7_3_boundary_inputs,
             'confirm': version.o7_3_confirm, 'witness_ok': version.o7_3_witness_ok},
    'O7.4a': {'engine': 'B', 'title': 'some_file_overlaps_range equals the linear-scan oracle', 'run': version.o7_4a_some_file_overlaps,
              'confirm': version.o7_4a_confirm, 'witness_ok': version.o7_4a_witness_ok},
    'O7.4b': {'engine': 'B', 'title': 'is_base_level_for_key: true iff no deeper level contains the user key (ascending keys)', 'run': version.o7_4b_base_level,
              'confirm': version.o7_4b_confirm, 'witness_ok': version.o7_4b_witness_ok},
    'O7.4c': {'engine': 'B', 'title': 'memtable output level never holds or passes an overlapping file', 'run': version.o7_4c_pick_level,
              'confirm': version.o7_4c_confirm, 'witness_ok': version.o7_4c_witness_ok},
    'O1.4': {'engine': 'B', 'title': 'files consulted by a lookup: all containing level-0 files newest first, the unique candidate per deeper level', 'run': version.o1_4_overlapping_files,
             'confirm': version.o1_4_confirm, 'witness_ok': version.o1_4_witness_ok},
    'O1.6': {'engine': 'B', 'title': 'Table::get distinguishes value / deleted / not-in-this-file correctly for every lookup bound', 'run': table.o1_6_table_get,
             'confirm': table.o1_6_confirm, 'witness_ok': table.o1_6_witness_ok},
    'O1.7': {'engine': 'B', 'title': 'manifest snapshot records (level, number, size, smallest..largest) of every file of the current version', 'run': versionset.o1_7_write_snapshot,
             'confirm': versionset.o1_7_confirm, 'witness_ok': versionset.o1_7_witness_ok},
    'O8.2': {'engine': 'B', 'title': 'log_and_apply reports a failed manifest write and does not install the version', 'run': versionset.o8_2_log_and_apply,
             'confirm': versionset.o8_2_confirm},
    'O12.1': {'engine': 'B', 'title': 'log writer fragmentation geometry for every start offset and record length', 'run': logs.o12_1_writer,
              'confirm': logs.o12_1_confirm, 'witness_ok': logs.o12_1_witness_ok},
    'O12.3': {'engine': 'B', 'title': 'log reader returns exactly the complete records, in order, for a file cut at any byte (incl. not cut)', 'run': logs.o12_3_reader,
              'confirm': logs.o12_3_confirm, 'witness_ok': logs.o12_3_witness_ok},
    'O12.4': {'engine': 'B', 'title': 'a record abandoned between two fragments is dropped, the records of the reopened writer are returned', 'run': logs.o12_4_reader,
              'confirm': logs.o12_3_confirm},
    'O15.5': {'engine': 'B', 'title': 'a fragment with a bad checksum costs exactly its own record; all other records are returned intact', 'run': logs.o15_5_reader,
              'confirm': logs.o12_3_confirm},
    'O16.2': {'engine': 'B', 'title': 'records appended after a torn final write are returned', 'run': logs.o16_2_torn_append,
              'confirm': logs.o12_3_confirm},
    'O4.1': {'engine': 'B', 'title': 'k-way merge cursor equals the cursor over the merged sorted array under every cursor pattern incl. direction reversals', 'run': iters.o4_1_merging,
             'confirm': iters.o4_1_confirm, 'witness_ok': iters.o4_1_witness_ok},
    'O3.2a': {'engine': 'B', 'title': 'a table compaction is bounded by the oldest live snapshot', 'run': compaction.o3_2a_smallest_snapshot, 'confirm': compaction.scenario_confirm},
    'O3.2b': {'engine': 'B', 'title': 'compaction keep/drop rule preserves what every live snapshot and the latest state see', 'run': compaction.o3_2b_keep_drop, 'confirm': compaction.scenario_confirm},
    'O8.3': {'engine': 'B', 'title': 'the leader of a write reports a failed make_room / WAL append and records the failed state', 'run': dbpaths.o8_3_apply_changes, 'confirm': dbpaths.o8_3_confirm},
    'O6.1': {'engine': 'B', 'title': 'a batch gets prev+1.. and the new sequence is published under the mutex only after the memtable insert', 'run': dbpaths.o6_1_sequence_publication, 'confirm': dbpaths.o6_1_confirm},
    'O5.1': {'engine': 'B', 'title': 'get / new_iterator capture memtable, immutable memtable, version and sequence while holding the mutex', 'run': dbpaths.o5_1_reads_under_mutex, 'confirm': dbpaths.o5_1_confirm},
    'O9.1': {'engine': 'B', 'title': 'no public method re-locks the non-reentrant database mutex on a path that holds it', 'run': dbpaths.o9_1_no_self_deadlock, 'confirm': dbpaths.o9_1_confirm},
    'O4.3': {'engine': 'B', 'title': 'two-level table iterator equals the cursor over the concatenated data blocks under every cursor pattern', 'run': iters.o4_3_two_level,
             'confirm': iters.o4_3_confirm, 'witness_ok': iters.o4_3_witness_ok},
    'O10.5': {'engine': 'B', 'title': 'version edits: new version = base - deleted + added, levels >= 1 sorted and disjoint, no panic on well-formed edits', 'run': builder.o10_5_version_builder,
              'confirm': builder.o10_5_confirm, 'witness_ok': builder.o10_5_witness_ok},
    'O3.3': {'engine': 'B', 'title': 'get_live_files reports every table file of every live version (all seven levels)', 'run': builder.o3_3_live_files, 'confirm': builder.o3_3_confirm},
    'O2.4': {'engine': 'B', 'title': 'flush: immutable memtable dropped / obsolete files removed only after table write and manifest edit succeeded; failures recorded', 'run': dbpaths.o2_4_flush_ordering, 'confirm': dbpaths.o2_4_confirm},
    'O11.1': {'engine': 'B', 'title': 'obsolete-file removal deletes exactly the WALs / tables / temp files / manifests nobody needs, nothing after a background error', 'run': dbpaths.o11_1_remove_obsolete, 'confirm': dbpaths.o11_1_confirm},
    'O4.2': {'engine': 'B', 'title': 'database iterator = cursor over the visible pairs (newest entry <= snapshot per user key, tombstones hidden) under every cursor pattern', 'run': iters.o4_2_database_iterator, 'confirm': iters.o4_2_confirm},
}
# Engine A obligations (Kani harnesses in /verif/harness/src/proofs.rs; runner in /verif/kani/runner.py)
import importlib.util as _u, os as _os
_spec = _u.spec_from_file_location('kani_runner_meta', _os.path.join(_os.path.dirname(_os.path.dirname(_os.path.abspath(__file__))), 'kani', 'runner.py'))
_kr = _u.module_from_spec(_spec); _spec.loader.exec_module(_kr)
for _n, (_title, _hs) in _kr.OBLIGATIONS.items():
    OBLIGATIONS[_n] = {'engine': 'A', 'title': _title, 'harnesses': [h for h, _ in _hs]}

PROPERTIES = {
    'C07': {'obligations': ['O7.1', 'O7.2', 'O7.3', 'O7.4a', 'O7.4b', 'O7.4c', 'O3.2a', 'O3.2b', 'O10.5']},
    'C01': {'obligations': ['O1.1', 'O1.3', 'O1.4', 'O1.6', 'O1.7']},
    'C08': {'obligations': ['O8.2', 'O8.3', 'O2.4']},
    'C05': {'obligations': ['O5.1', 'O6.1', 'O2.4']},
    'C06': {'obligations': ['O6.1', 'O5.1']},
    'C09': {'obligations': ['O9.1', 'O10.5']},
    'C12': {'obligations': ['O12.1', 'O12.3', 'O12.4', 'O12.2']},
    'C13': {'obligations': ['O1.6', 'O4.3', 'O13.1', 'O1.1']},
    'C14': {'obligations': ['O14.1']},
    'C02': {'obligations': ['O12.3', 'O2.4']},
    'C15': {'obligations': ['O15.5', 'O4.3', 'O15.1', 'O15.2', 'O15.3']},
    'C16': {'obligations': ['O12.3', 'O16.2']},
    'C03': {'obligations': ['O1.6', 'O3.2a', 'O3.2b', 'O3.3', 'O4.2']},
    'C04': {'obligations': ['O4.1', 'O4.2', 'O4.3']},
    'C10': {'obligations': ['O7.1', 'O1.3', 'O10.3', 'O10.5', 'O1.7']},
    'C11': {'obligations': ['O3.3', 'O11.1']},
}
