"""Summaries of std / dependency functions for Engine B (the trusted part besides the executor).

A summary is `f(se, env, pc, *vals) -> [(cond|None, ret, state[, writes])]` or a Delegate.
`env` may be mutated in place for heap effects common to all outcomes (se.store)."""
import re
from z3 import (BitVec, BitVecVal, Bool, BoolVal, And, Or, Not, If, ULT, ULE, UGT, UGE, simplify, is_bv, is_bool, is_bv_value,
                is_true, is_false, ZeroExt, Extract)
from .exec import Enum, Ref, Opaque, Delegate, Inconclusive, bv, get_at, set_at


def one(env, ret): return [(None, ret, env.get('$state'))]


def as_int(v):
    if isinstance(v, int): return v
    s = simplify(v)
    if not is_bv_value(s): raise Inconclusive('expected a concrete integer, got %s' % v)
    return s.as_long()


def tag_is(se, env, r, tags):
    v = se.deref(env, r)
    if isinstance(v, Enum): return BoolVal(v.tag in tags)
    if isinstance(v, Opaque): return v
    raise Inconclusive('enum test on %r' % (v,))


def ord_of(lt, eq):
    """std::cmp::Ordering as an i8 term."""
    return If(lt, BitVecVal(0xff, 8), If(eq, BitVecVal(0, 8), BitVecVal(1, 8)))


def is_key(v): return is_bv(v) and v.size() == 16


def bytes_cmp(se, env, a, b):
    a, b = se.deref(env, a), se.deref(env, b)
    if is_key(a) and is_key(b): return ord_of(ULT(a, b), a == b)
    raise Inconclusive('byte comparison on non-abstract keys %r %r' % (a, b))


def bytes_rel(rel):
    def f(se, env, pc, a, b):
        a, b = se.deref(env, a), se.deref(env, b)
        if not (is_key(a) and is_key(b)): raise Inconclusive('byte comparison on non-abstract keys %r %r' % (a, b))
        return one(env, {'lt': ULT, 'le': ULE, 'gt': UGT, 'ge': UGE, 'eq': lambda x, y: x == y, 'ne': lambda x, y: x != y}[rel](a, b))
    return f


def int_cmp(se, env, pc, a, b):
    a, b = se.deref(env, a), se.deref(env, b)
    return one(env, ord_of(ULT(a, b), a == b))


def ident(se, env, pc, x, *rest): return one(env, x)


def ptr_deref(se, env, pc, x, *rest):
    """Deref of a smart pointer / guard: `x` is a reference to the pointer. Pointers are modelled either transparently
    (the pointee value itself) or as a Ref to the pointee."""
    if isinstance(x, Ref):
        try: v = get_at(env[x.local], x.path)
        except (KeyError, IndexError, TypeError): return one(env, x)
        if isinstance(v, Ref): return one(env, v)
    return one(env, x)
def deref1(se, env, pc, x, *rest): return one(env, se.deref(env, x))
def unit(se, env, pc, *a): return one(env, ())
def false_(se, env, pc, *a): return one(env, BoolVal(False))


def call_closure(se, env, pc, clo, args, post=lambda r: r):
    c = se.deref(env, clo) if isinstance(clo, Ref) else clo
    if isinstance(c, dict) and '__closure' in c and c['__closure'] in se.mir.closures:
        f = se.mir.closures[c['__closure']]
        f.parse()
        first = f.locals.get('_1', '')
        selfarg = clo if first.startswith('&') and isinstance(clo, Ref) else c
        if first.startswith('&') and not isinstance(clo, Ref):
            se.ncell = getattr(se, 'ncell', 0) + 1
            cell = '$clo%d' % se.ncell; env[cell] = c; selfarg = Ref(cell)
        return Delegate(f, [selfarg] + list(args), post)
    raise Inconclusive('call of unknown closure %r' % (c,))


# ---------------------------------------------------------------- Option / Result
def opt_map(se, env, pc, o, clo):
    if isinstance(o, Enum) and o.tag == 'None': return one(env, o)
    if isinstance(o, Enum) and o.tag == 'Some': return call_closure(se, env, pc, clo, [o.fields[0]], lambda r: Enum('Some', (r,)))
    raise Inconclusive('Option::map on %r' % (o,))


def res_map_err(se, env, pc, r, clo):
    if isinstance(r, Enum) and r.tag == 'Ok': return one(env, r)
    if isinstance(r, Enum) and r.tag == 'Err': return one(env, Enum('Err', (Opaque('mapped-err'),)))
    raise Inconclusive('Result::map_err on %r' % (r,))


def unwrap(se, env, pc, o, *rest):
    v = se.deref(env, o) if isinstance(o, Ref) else o
    if isinstance(v, Enum) and v.tag in ('Some', 'Ok'): return one(env, v.fields[0])
    if isinstance(v, Enum):
        se.panics.append((list(pc), 'explicit: unwrap on %s' % v.tag, 'summary')); return []
    raise Inconclusive('unwrap on %r' % (v,))


def as_ref(se, env, pc, r):
    v = se.deref(env, r)
    if isinstance(v, Enum) and v.tag == 'None': return one(env, v)
    if isinstance(v, Enum) and v.tag in ('Some',):
        base = r
        while isinstance(get_at(env[base.local], base.path), Ref): base = get_at(env[base.local], base.path)
        return one(env, Enum('Some', (Ref(base.local, base.path + (0,)),)))
    raise Inconclusive('as_ref on %r' % (v,))


def opt_insert(se, env, pc, r, v):
    se.store(env, r, Enum('Some', (v,)))
    b = base_ref(se, env, r)
    return one(env, Ref(b.local, b.path + (0,)))


def opt_replace(se, env, pc, r, v):
    old = se.deref(env, r); se.store(env, r, Enum('Some', (v,))); return one(env, old)


def opt_take(se, env, pc, r):
    v = se.deref(env, r); se.store(env, r, Enum('None')); return one(env, v)


# ---------------------------------------------------------------- Vec / slices / iterators
def the_list(se, env, r):
    v = se.deref(env, r) if isinstance(r, Ref) else r
    if isinstance(v, list): return v
    raise Inconclusive('expected a list-modelled Vec/slice, got %r' % (v,))


def vec_len(se, env, pc, r):
    v = se.deref(env, r) if isinstance(r, Ref) else r
    if isinstance(v, list): return one(env, bv(len(v)))
    if isinstance(v, dict) and 'len' in v: return one(env, v['len'])
    if is_bv(v) and v.size() == 16: return one(env, BitVecVal(2, 64))       # abstract user keys are rendered as 2-byte strings
    raise Inconclusive('len of %r' % (v,))


def vec_is_empty(se, env, pc, r):
    v = se.deref(env, r) if isinstance(r, Ref) else r
    if isinstance(v, list): return one(env, BoolVal(len(v) == 0))
    if isinstance(v, dict) and 'len' in v: return one(env, v['len'] == bv(0))
    if is_bv(v) and v.size() == 8: return one(env, v == BitVecVal(0, 8))          # abstract values are 8-bit ids; id 0 stands for the empty value
    raise Inconclusive('is_empty of %r' % (v,))


def vec_push(se, env, pc, r, x):
    se.store(env, r, the_list(se, env, r) + [x]); return one(env, ())


def vec_clear(se, env, pc, r):
    se.store(env, r, []); return one(env, ())


def base_ref(se, env, r):
    while isinstance(get_at(env[r.local], r.path), Ref): r = get_at(env[r.local], r.path)
    return r


def abs_slice(se, env, pc, buf, i):
    """Range indexing of an abstract byte buffer {'len', 'off', 'kind'} (contents are not represented)."""
    a, b = i[0], i[1]
    ok = And(ULE(a, b), ULE(b, buf['len']))
    if se.check(Not(ok)): se.panics.append((list(pc) + [Not(ok)], 'range end index out of range for slice (summary)', 'summary'))
    out = dict(buf, len=b - a)
    if buf.get('off') is not None: out['off'] = buf['off'] + a
    return [(ok, out, env.get('$state'))]


def split_at(se, env, pc, r, n):
    buf = se.deref(env, r) if isinstance(r, Ref) else r
    if not (isinstance(buf, dict) and 'len' in buf): raise Inconclusive('split_at on %r' % (buf,))
    ok = ULE(n, buf['len'])
    if se.check(Not(ok)): se.panics.append((list(pc) + [Not(ok)], 'split_at: mid > len (summary)', 'summary'))
    left = dict(buf, len=n); right = dict(buf, len=buf['len'] - n)
    if buf.get('off') is not None: right['off'] = buf['off'] + n
    return [(ok, (left, right), env.get('$state'))]


def vec_index(se, env, pc, r, i):
    v00 = se.deref(env, r) if isinstance(r, Ref) else r
    if isinstance(v00, dict) and 'len' in v00 and not isinstance(i, dict):
        # one byte of an abstract buffer: contents are not represented
        ii = i if is_bv(i) else bv(i)
        ok = ULT(ii, v00['len'])
        if se.check(Not(ok)): se.panics.append((list(pc) + [Not(ok)], 'index out of bounds (summary)', 'summary'))
        return [(ok, Opaque('byte of an abstract buffer'), env.get('$state'))]
    if not isinstance(i, (int, dict)) and is_bv(i):
        c = se.concretize(i)
        if c is None:
            # case split over the positions of a short vector (and the out-of-bounds panic)
            rr = base_ref(se, env, r) if isinstance(r, Ref) else None
            l = get_at(env[rr.local], rr.path) if rr is not None else None
            if not isinstance(l, list) or len(l) > 8: raise Inconclusive('symbolic index into a vector (%s)' % i)
            n = BitVecVal(len(l), i.size())
            if se.check(UGE(i, n)): se.panics.append((list(pc) + [UGE(i, n)], 'index out of bounds (summary)', 'summary'))
            return [(i == BitVecVal(k, i.size()), Ref(rr.local, rr.path + (k,)), env.get('$state')) for k in range(len(l))]
        i = c
    v0 = se.deref(env, r) if isinstance(r, Ref) else r
    if isinstance(v0, dict) and 'len' in v0 and isinstance(i, dict) and i.get('__ty') == 'Range': return abs_slice(se, env, pc, v0, i)
    if isinstance(v0, dict) and 'len' in v0 and isinstance(i, dict) and i.get('__ty') == 'RangeFrom': return abs_slice(se, env, pc, v0, {0: i[0], 1: v0['len']})
    if isinstance(v0, dict) and 'len' in v0 and isinstance(i, dict) and i.get('__ty') == 'RangeTo': return abs_slice(se, env, pc, v0, {0: bv(0), 1: i[0]})
    if isinstance(v0, dict) and 'len' in v0 and isinstance(i, dict) and i.get('__ty') == 'RangeFull': return one(env, v0)
    r = base_ref(se, env, r); l = get_at(env[r.local], r.path)
    if isinstance(i, dict) and i.get('__ty') == 'Range':
        a, b = as_int(i[0]), as_int(i[1]); return one(env, l[a:b])
    n = as_int(i)
    if n >= len(l):
        se.panics.append((list(pc), 'index out of bounds (summary)', 'summary')); return []
    return one(env, Ref(r.local, r.path + (n,)))


def slice_iter(se, env, pc, r):
    if isinstance(r, Ref):
        r = base_ref(se, env, r); l = get_at(env[r.local], r.path)
        if not isinstance(l, list): raise Inconclusive('iter over %r' % (l,))
        return one(env, {'it': [Ref(r.local, r.path + (i,)) for i in range(len(l))]})
    if isinstance(r, list): return one(env, {'it': list(r)})
    raise Inconclusive('iter over %r' % (r,))


def into_iter_owned(se, env, pc, v):
    if isinstance(v, Ref): return slice_iter(se, env, pc, v)
    if isinstance(v, list): return one(env, {'it': list(v)})
    if isinstance(v, dict) and 'it' in v: return one(env, v)
    if isinstance(v, dict) and v.get('__ty') == 'Range': return one(env, {'it': [bv(i) for i in range(as_int(v[0]), as_int(v[1]))]})
    raise Inconclusive('into_iter over %r' % (v,))


def it_next(se, env, pc, r):
    it = se.deref(env, r)
    if it['it']:
        se.store(env, r, dict(it, it=it['it'][1:])); return one(env, Enum('Some', (it['it'][0],)))
    return one(env, Enum('None'))


def it_next_back(se, env, pc, r):
    it = se.deref(env, r)
    if it['it']:
        se.store(env, r, dict(it, it=it['it'][:-1])); return one(env, Enum('Some', (it['it'][-1],)))
    return one(env, Enum('None'))


def it_rev(se, env, pc, it): return one(env, dict(it, it=list(reversed(it['it']))))
def it_enumerate(se, env, pc, it): return one(env, dict(it, it=[(bv(i), x) for i, x in enumerate(it['it'])]))
def it_skip(se, env, pc, it, n): return one(env, dict(it, it=it['it'][as_int(n):]))


def first_last(idx):
    def f(se, env, pc, r):
        if isinstance(r, list):          # a slice passed by value (returned by a summary): hand out the element itself
            if not r: return one(env, Enum('None'))
            return one(env, Enum('Some', (r[0 if idx == 0 else len(r) - 1],)))
        rr = base_ref(se, env, r); l = get_at(env[rr.local], rr.path)
        if not isinstance(l, list): raise Inconclusive('first/last of %r' % (l,))
        if not l: return one(env, Enum('None'))
        i = 0 if idx == 0 else len(l) - 1
        return one(env, Enum('Some', (Ref(rr.local, rr.path + (i,)),)))
    return f


def clone_deep(se, env, pc, r): return one(env, se.deref(env, r))


def cps(f):
    f.cps = True; return f


def closure_fn(se, env, clo):
    c = se.deref(env, clo) if isinstance(clo, Ref) else clo
    if isinstance(c, dict) and '__closure' in c and c['__closure'] in se.mir.closures:
        f = se.mir.closures[c['__closure']]; f.parse(); return f, c
    raise Inconclusive('call of unknown closure %r' % (c,))


def apply_closure(se, env, pc, clo, args, k):
    """CPS call of a closure value with argument list `args`; k(ret, env, pc)."""
    c0 = se.deref(env, clo) if isinstance(clo, Ref) else clo
    if isinstance(c0, dict) and '__fnitem' in c0:
        return se.call(c0['__fnitem'], list(args), env, pc, k, where='function item')
    f, c = closure_fn(se, env, clo)
    first = f.locals.get('_1', '')
    selfarg = c
    if first.startswith('&'):
        if isinstance(clo, Ref): selfarg = clo
        else:
            se.ncell = getattr(se, 'ncell', 0) + 1
            cell = '$clo%d' % se.ncell; env = dict(env); env[cell] = c; selfarg = Ref(cell)
    se.run_fn(f, [selfarg] + list(args), env, pc, k)


@cps
def it_map(se, env, pc, vals, cont):
    it, clo = vals
    cont(dict(it, maps=it.get('maps', []) + [clo]), env, pc)


def it_pull(se, env, pc, it, k):
    """Next element of a (possibly mapped) iterator value: k(Some-value or None, new iterator value, env, pc)."""
    if not it['it']: return k(None, it, env, pc)
    x, rest = it['it'][0], dict(it, it=it['it'][1:])
    maps = it.get('maps', [])
    def ap(i, v, env, pc):
        if i == len(maps): return k(('some', v), rest, env, pc)
        apply_closure(se, env, pc, maps[i], [v], lambda r, e, p: ap(i + 1, r, e, p))
    ap(0, x, env, pc)


@cps
def it_next_cps(se, env, pc, vals, cont):
    r = vals[0]; it = se.deref(env, r)
    def k(v, it2, env2, pc2):
        e = dict(env2); se.store(e, r, it2)
        cont(Enum('None') if v is None else Enum('Some', (v[1],)), e, pc2)
    it_pull(se, env, pc, it, k)


@cps
def it_sum(se, env, pc, vals, cont):
    it = vals[0]
    def loop(acc, it, env, pc):
        def k(v, it2, env2, pc2):
            if v is None: return cont(acc, env2, pc2)
            x = se.deref(env2, v[1]) if isinstance(v[1], Ref) else v[1]
            from z3 import BVAddNoOverflow
            ok = BVAddNoOverflow(acc, x, False)
            if se.check(Not(ok)): se.panics.append((pc2 + [Not(ok)], 'attempt to add with overflow (Iterator::sum)', 'summary'))
            se.under(ok, lambda: loop(acc + x, it2, env2, pc2 + [ok]))
        it_pull(se, env, pc, it, k)
    loop(bv(0), it, env, pc)


@cps
def it_collect(se, env, pc, vals, cont):
    it = vals[0]
    def loop(acc, it, env, pc):
        def k(v, it2, env2, pc2):
            if v is None: return cont(acc, env2, pc2)
            loop(acc + [v[1]], it2, env2, pc2)
        it_pull(se, env, pc, it, k)
    loop([], it, env, pc)


# ---------------------------------------------------------------- Option / Result combinators taking closures (CPS)
def _enum_of(se, env, v):
    v = se.deref(env, v) if isinstance(v, Ref) else v
    if not isinstance(v, Enum): raise Inconclusive('combinator on %r' % (v,))
    return v


def _combinator(on_tags, wrap, passthrough=lambda v: v):
    """value.tag in on_tags: closure(payload) -> wrap(result); otherwise passthrough(value)."""
    @cps
    def f(se, env, pc, vals, cont):
        v = _enum_of(se, env, vals[0]); clo = vals[-1]
        if v.tag in on_tags:
            args = [v.fields[0]] if v.fields else []
            return apply_closure(se, env, pc, clo, args, lambda r, e, p: cont(wrap(r), e, p))
        return cont(passthrough(v), env, pc)
    return f


@cps
def _map_or(se, env, pc, vals, cont):
    v = _enum_of(se, env, vals[0]); default, clo = vals[1], vals[2]
    if v.tag in ('Some', 'Ok'): return apply_closure(se, env, pc, clo, [v.fields[0]], cont)
    return cont(default, env, pc)


@cps
def _map_or_else(se, env, pc, vals, cont):
    v = _enum_of(se, env, vals[0]); dclo, clo = vals[1], vals[2]
    if v.tag in ('Some', 'Ok'): return apply_closure(se, env, pc, clo, [v.fields[0]], cont)
    return apply_closure(se, env, pc, dclo, [v.fields[0]] if v.tag == 'Err' else [], cont)


@cps
def _unwrap_or_else(se, env, pc, vals, cont):
    v = _enum_of(se, env, vals[0])
    if v.tag in ('Some', 'Ok'): return cont(v.fields[0], env, pc)
    return apply_closure(se, env, pc, vals[1], [v.fields[0]] if v.tag == 'Err' else [], cont)


def combinator_summaries(P):
    P[r'Result::or_else'] = _combinator(('Err',), lambda r: r)
    P[r'Result::and_then'] = _combinator(('Ok',), lambda r: r)
    P[r'Option::and_then'] = _combinator(('Some',), lambda r: r)
    P[r'Option::or_else'] = _combinator(('None',), lambda r: r)
    P[r'Result::map'] = _combinator(('Ok',), lambda r: Enum('Ok', (r,)))
    P[r'Option::map'] = _combinator(('Some',), lambda r: Enum('Some', (r,)))
    P[r'(?:Option|Result)::map_or'] = _map_or
    P[r'(?:Option|Result)::map_or_else'] = _map_or_else
    P[r'(?:Option|Result)::unwrap_or_else'] = _unwrap_or_else
    P[r'(?:Option|Result)::unwrap_or'] = lambda se, env, pc, v, d: one(env, _enum_of(se, env, v).fields[0] if _enum_of(se, env, v).tag in ('Some', 'Ok') else d)
    P[r'Result::ok'] = lambda se, env, pc, v: one(env, v if isinstance(v, Opaque) else (Enum('Some', (v.fields[0],)) if v.tag == 'Ok' else Enum('None')))
    P[r'Result::err'] = lambda se, env, pc, v: one(env, v if isinstance(v, Opaque) else (Enum('Some', (v.fields[0],)) if v.tag == 'Err' else Enum('None')))
    P[r'Option::ok_or'] = lambda se, env, pc, v, e: one(env, Enum('Ok', (v.fields[0],)) if v.tag == 'Some' else Enum('Err', (e,)))
    P[r'Option::filter'] = _filter
    P[r'<.* as Iterator>::any'] = _quantifier(True, True)
    P[r'<.* as Iterator>::all'] = _quantifier(False, False)
    P[r'(?:Vec|HashSet)::retain'] = _retain
    P[r'Vec::dedup_by'] = _dedup_by


@cps
def _filter(se, env, pc, vals, cont):
    v = _enum_of(se, env, vals[0])
    if v.tag == 'None': return cont(v, env, pc)
    se.ncell = getattr(se, 'ncell', 0) + 1
    cell = '$flt%d' % se.ncell; env = dict(env); env[cell] = v.fields[0]
    def k(r, e, p):
        if isinstance(r, bool) or is_true(r) or is_false(r):
            return cont(v if (r is True or is_true(r)) else Enum('None'), e, p)
        se.under(r, lambda: cont(v, e, p + [r])); se.under(Not(r), lambda: cont(Enum('None'), e, p + [Not(r)]))
    apply_closure(se, env, pc, vals[1], [Ref(cell)], k)


@cps
def _take_while(se, env, pc, vals, cont):
    """iter.take_while(pred): the longest prefix on which the crate closure answers true (forks on symbolic answers)."""
    it, clo = vals
    items = it['it'] if isinstance(it, dict) and 'it' in it else None
    if items is None: raise Inconclusive('take_while over %r' % (it,))
    def step(i, e, p, acc):
        if i == len(items): return cont({'it': list(acc)}, e, p)
        def after(r, e2, p2):
            if isinstance(r, bool): r = BoolVal(r)
            if isinstance(r, Opaque): raise Inconclusive('take_while predicate is opaque')
            def yes(): step(i + 1, e2, p2 + [r], acc + [items[i]])
            def no(): cont({'it': list(acc)}, e2, p2 + [Not(r)])
            se.under(r, yes); se.under(Not(r), no)
        apply_closure(se, e, p, clo, [items[i]], after)
    step(0, env, pc, [])


def _fork_bool(se, r, on_true, on_false):
    """Continue on a (possibly symbolic) boolean result: both ways if it depends on the model."""
    if isinstance(r, bool): return on_true([]) if r else on_false([])
    if isinstance(r, Opaque): on_true([]); return on_false([])
    if is_true(simplify(r)): return on_true([])
    if is_false(simplify(r)): return on_false([])
    se.under(r, lambda: on_true([r])); se.under(Not(r), lambda: on_false([Not(r)]))


def _quantifier(stop_on, result_when_stopped):
    """Iterator::any (stop on true -> true) / Iterator::all (stop on false -> false) with a closure, over a list-modelled iterator."""
    @cps
    def f(se, env, pc, vals, cont):
        itr, clo = vals[0], vals[1]
        it0 = se.deref(env, itr) if isinstance(itr, Ref) else itr
        def loop(it, env, pc):
            def got(v, it2, env2, pc2):
                if v is None:
                    e = dict(env2)
                    if isinstance(itr, Ref): se.store(e, itr, it2)
                    return cont(BoolVal(not result_when_stopped), e, pc2)
                def after(r, e3, p3):
                    def stop(extra):
                        e = dict(e3)
                        if isinstance(itr, Ref): se.store(e, itr, it2)
                        cont(BoolVal(result_when_stopped), e, p3 + extra)
                    def go_on(extra): loop(it2, e3, p3 + extra)
                    if stop_on: _fork_bool(se, r, stop, go_on)
                    else: _fork_bool(se, r, go_on, stop)
                apply_closure(se, env2, pc2, clo, [v[1]], after)
            it_pull(se, env, pc, it, got)
        loop(it0, env, pc)
    return f


@cps
def _retain(se, env, pc, vals, cont):
    """Vec::retain / HashSet::retain with a predicate closure over a list- or set-modelled collection."""
    coll, clo = vals[0], vals[1]
    v = se.deref(env, coll)
    is_set = isinstance(v, dict) and 'set' in v
    items = list(v['set']) if is_set else list(the_list(se, env, coll))
    b = base_ref(se, env, coll)
    def loop(i, kept, env, pc):
        if i == len(items):
            e = dict(env); se.store(e, coll, {'set': kept} if is_set else kept); return cont((), e, pc)
        se.ncell = getattr(se, 'ncell', 0) + 1
        cell = '$ret%d' % se.ncell; e = dict(env); e[cell] = items[i]
        def after(r, e2, p2):
            _fork_bool(se, r, lambda extra: loop(i + 1, kept + [items[i]], e2, p2 + extra), lambda extra: loop(i + 1, kept, e2, p2 + extra))
        apply_closure(se, e, pc, clo, [Ref(cell)], after)
    loop(0, [], env, pc)


def _dedup_by(se, env, pc, vals, cont):
    """Vec::dedup_by(same_bucket): same_bucket(candidate, last kept) == true removes the candidate."""
    coll, clo = vals[0], vals[1]
    items = list(the_list(se, env, coll))
    def loop(i, kept, env, pc):
        if i == len(items):
            e = dict(env); se.store(e, coll, kept); return cont((), e, pc)
        if not kept: return loop(i + 1, [items[i]], env, pc)
        se.ncell = getattr(se, 'ncell', 0) + 2
        ca, cb = '$ddp%d' % se.ncell, '$ddp%d' % (se.ncell - 1); e = dict(env); e[ca] = items[i]; e[cb] = kept[-1]
        def after(r, e2, p2):
            _fork_bool(se, r, lambda extra: loop(i + 1, kept, e2, p2 + extra), lambda extra: loop(i + 1, kept + [items[i]], e2, p2 + extra))
        apply_closure(se, e, pc, clo, [Ref(ca), Ref(cb)], after)
    loop(0, [], env, pc)
_dedup_by.cps = True


def _sort_by_key_late(se, env, pc, vals, cont): return sort_by_key(se, env, pc, vals, cont)
_sort_by_key_late.cps = True


def _into(se, env, pc, v):
    raise Inconclusive('Into::into needs an obligation-specific summary')


def int_summaries(P):
    """Inherent integer methods (unsigned types; the width is that of the operands)."""
    from z3 import If, BVAddNoOverflow, BVMulNoOverflow, LShR
    U = r'(?:core|std)::num::<impl u(?:8|16|32|64|size)>::'
    def two(f): return lambda se, env, pc, a, b: one(env, f(a, b))
    def sh(a, b): return ZeroExt(a.size() - b.size(), b) if b.size() < a.size() else (Extract(a.size() - 1, 0, b) if b.size() > a.size() else b)
    P[U + 'saturating_sub'] = two(lambda a, b: If(ULT(a, b), BitVecVal(0, a.size()), a - b))
    P[U + 'saturating_add'] = two(lambda a, b: If(BVAddNoOverflow(a, b, False), a + b, BitVecVal((1 << a.size()) - 1, a.size())))
    P[U + 'wrapping_add'] = two(lambda a, b: a + b); P[U + 'wrapping_sub'] = two(lambda a, b: a - b); P[U + 'wrapping_mul'] = two(lambda a, b: a * b)
    P[U + 'wrapping_shl'] = two(lambda a, b: a << (sh(a, b) & BitVecVal(a.size() - 1, a.size()))); P[U + 'wrapping_shr'] = two(lambda a, b: LShR(a, sh(a, b) & BitVecVal(a.size() - 1, a.size())))
    def checked(ok, f):
        def g(se, env, pc, a, b):
            st = env.get('$state'); c = ok(a, b)
            return [(c, Enum('Some', (f(a, b),)), st), (Not(c), Enum('None'), st)]
        return g
    P[U + 'checked_sub'] = checked(lambda a, b: ULE(b, a), lambda a, b: a - b)
    P[U + 'checked_add'] = checked(lambda a, b: BVAddNoOverflow(a, b, False), lambda a, b: a + b)
    P[U + 'checked_mul'] = checked(lambda a, b: BVMulNoOverflow(a, b, False), lambda a, b: a * b)
    def i64_from_u64(se, env, pc, x):
        st = env.get('$state'); fits = ULT(x, BitVecVal(1 << 63, 64))
        return [(fits, Enum('Ok', (x,)), st), (Not(fits), Enum('Err', (Opaque('TryFromIntError'),)), st)]
    P[r'<i64 as TryFrom<u64>>::try_from'] = i64_from_u64
    def op_assign(f):
        def g(se, env, pc, a, b):
            bv_ = b
            while isinstance(bv_, Ref): bv_ = se.deref(env, bv_)
            se.store(env, a, f(se.deref(env, a), bv_)); return one(env, ())
        return g
    P[r'<u(?:8|16|32|64|size) as AddAssign<&?u(?:8|16|32|64|size)>>::add_assign'] = op_assign(lambda x, y: x + y)
    P[r'<u(?:8|16|32|64|size) as SubAssign<&?u(?:8|16|32|64|size)>>::sub_assign'] = op_assign(lambda x, y: x - y)
    P[U + 'abs_diff'] = two(lambda a, b: If(ULT(a, b), b - a, a - b))
    P[U + 'min'] = two(lambda a, b: If(ULT(b, a), b, a)); P[U + 'max'] = two(lambda a, b: If(ULT(a, b), b, a))
    P[r'<u(?:8|16|32|64|size) as Ord>::(min|max)'] = None
    del P[r'<u(?:8|16|32|64|size) as Ord>::(min|max)']
    P[r'<u(?:8|16|32|64|size) as Ord>::min'] = P[U + 'min']; P[r'<u(?:8|16|32|64|size) as Ord>::max'] = P[U + 'max']


def tuple_cmp_summaries(P):
    """Lexicographic `PartialOrd` of tuples whose components are integers or abstract (bit-vector) byte strings."""
    def val(se, env, x):
        n = 0
        while isinstance(x, Ref) and n < 8: x = se.deref(env, x); n += 1
        return x
    def rel(name):
        def f(se, env, pc, a, b):
            ta, tb = val(se, env, a), val(se, env, b)
            if not (isinstance(ta, tuple) and isinstance(tb, tuple) and len(ta) == len(tb)): raise Inconclusive('tuple comparison of %r and %r' % (ta, tb))
            xs = [(val(se, env, x), val(se, env, y)) for x, y in zip(ta, tb)]
            if not all(is_bv(x) and is_bv(y) and x.size() == y.size() for x, y in xs): raise Inconclusive('tuple comparison over %r' % (xs,))
            lt, eq = BoolVal(False), BoolVal(True)
            for x, y in xs:
                lt = Or(lt, And(eq, ULT(x, y))); eq = And(eq, x == y)
            return one(env, {'lt': lt, 'le': Or(lt, eq), 'gt': And(Not(lt), Not(eq)), 'ge': Not(lt)}[name])
        return f
    for n in ('lt', 'le', 'gt', 'ge'): P[r'<\(.*\) as PartialOrd>::%s' % n] = rel(n)


def std_summaries():
    S = {}
    P = {}
    S['$patterns'] = P
    int_summaries(P)
    tuple_cmp_summaries(P)
    P[r'Vec::append'] = lambda se, env, pc, a, b: (se.store(env, a, the_list(se, env, a) + the_list(se, env, b)), se.store(env, b, []), one(env, ()))[2]
    P[r'(?:core|std)::slice::<impl \[.*\]>::sort_by_key'] = _sort_by_key_late
    P[r'<\[Vec<.*>; (\d+)\] as Default>::default'] = lambda se, env, pc: one(env, [[] for _ in range(7)])
    P[r'<.* as Iterator>::map'] = it_map
    P[r'<Map<.*> as Iterator>::sum'] = it_sum
    P[r'<.* as Iterator>::sum'] = it_sum
    P[r'<Map<.*> as Iterator>::next'] = it_next_cps
    P[r'<.* as Iterator>::collect'] = it_collect
    P[r'parking_lot::lock_api::RwLock::(?:read|write)'] = ident
    P[r'<parking_lot::lock_api::RwLock(?:Read|Write)Guard<.*> as Deref(?:Mut)?>::deref(?:_mut)?'] = ptr_deref
    P[r'<.* as AsRef<.*>>::as_ref'] = ident
    # logging / formatting
    P[r'<(?:log::)?Level as PartialOrd<(?:log::)?LevelFilter>>::le'] = false_
    P[r'log::__private_api::.*'] = unit
    P[r'log::max_level'] = lambda se, env, pc: one(env, Opaque('level'))
    P[r'(?:(?:std|core)::fmt::)?Arguments::.*'] = lambda se, env, pc, *a: one(env, Opaque('fmt-args'))
    P[r'(?:core|std)::fmt::rt::.*'] = lambda se, env, pc, *a: one(env, Opaque('fmt-arg'))
    P[r'(?:std|alloc)::fmt::format'] = lambda se, env, pc, *a: one(env, {'str': '<formatted>'})
    P[r'format'] = lambda se, env, pc, *a: one(env, {'str': '<formatted>'})      # the key an obligation overrides when strings matter (O11.7)
    P[r'format_args_helper.*'] = lambda se, env, pc, *a: one(env, Opaque('fmt'))
    P[r'must_use|std::hint::must_use|core::hint::must_use'] = lambda se, env, pc, x: one(env, x)
    P[r'(?:std|alloc)::fmt::format::format_inner'] = lambda se, env, pc, *a: one(env, {'str': '<formatted>'})
    # smart pointers: transparent
    P[r'(?:Arc|Rc|Box)::new'] = ident
    P[r'(?:parking_lot::lock_api::)?(?:RwLock|Mutex)::new'] = ident
    P[r'<(?:Arc|Rc|Box)<.*> as Clone>::clone'] = deref1
    P[r'Arc::clone'] = deref1
    P[r'<(?:Arc|Rc|Box|&|&mut )<?.*>? as (?:Deref|DerefMut|AsRef<.*>|Borrow<.*>)>::(?:deref|deref_mut|as_ref|borrow)'] = ptr_deref
    P[r'<Vec<.*> as (?:Deref|DerefMut|AsRef<.*>)>::(?:deref|deref_mut|as_ref)'] = ident
    P[r'Vec::(?:as_slice|as_mut_slice)'] = ident
    P[r'Arc::ptr_eq'] = lambda se, env, pc, a, b: one(env, BoolVal(base_ref(se, env, a).local == base_ref(se, env, b).local and base_ref(se, env, a).path == base_ref(se, env, b).path) if isinstance(a, Ref) and isinstance(b, Ref) else Opaque('ptr_eq'))
    # Option / Result
    P[r'Option::is_some'] = lambda se, env, pc, r: one(env, tag_is(se, env, r, ('Some',)))
    P[r'Option::is_none'] = lambda se, env, pc, r: one(env, tag_is(se, env, r, ('None',)))
    P[r'Result::is_ok'] = lambda se, env, pc, r: one(env, tag_is(se, env, r, ('Ok',)))
    P[r'Result::is_err'] = lambda se, env, pc, r: one(env, tag_is(se, env, r, ('Err',)))
    P[r'(?:Option|Result)::(?:unwrap|expect)'] = unwrap
    P[r'Option::(?:as_ref|as_mut)'] = as_ref
    P[r'Option::take'] = opt_take
    P[r'Option::insert'] = opt_insert
    P[r'Option::replace'] = opt_replace
    P[r'Result::map_err'] = res_map_err
    P[r'Option::cloned'] = lambda se, env, pc, o: one(env, Enum('Some', (se.deref(env, o.fields[0]),)) if o.tag == 'Some' else o)
    # Vec / slice
    P[r'core::slice::<impl \[u8\]>::split_at'] = split_at
    P[r'std::vec::from_elem'] = lambda se, env, pc, z, n: one(env, {'len': n, 'kind': 'zeros', 'off': bv(0)})
    P[r'Vec::new'] = lambda se, env, pc: one(env, [])
    P[r'Vec::with_capacity'] = lambda se, env, pc, n: one(env, [])
    P[r'Vec::len'] = vec_len
    P[r'core::slice::<impl \[.*\]>::len'] = vec_len
    P[r'Vec::is_empty'] = vec_is_empty
    P[r'core::slice::<impl \[.*\]>::is_empty'] = vec_is_empty
    P[r'Vec::push'] = vec_push
    P[r'Vec::(?:reserve|reserve_exact|shrink_to_fit|shrink_to)'] = unit        # capacity only
    P[r'<.* as Iterator>::take_while'] = _take_while
    P[r'<.* as Iterator>::count'] = lambda se, env, pc, it: one(env, bv(len(it['it']))) if isinstance(it, dict) and 'it' in it else (_ for _ in ()).throw(Inconclusive('count of %r' % (it,)))
    P[r'Vec::clear'] = vec_clear
    # further in-place list operations (positions must be concrete on the path)
    def _rng(se, l, r):
        n = len(l)
        if isinstance(r, dict) and r.get('__ty') == 'RangeFull': return 0, n
        if isinstance(r, dict) and r.get('__ty') == 'Range': return as_int(se.concretize(r[0])), as_int(se.concretize(r[1]))
        if isinstance(r, dict) and r.get('__ty') == 'RangeFrom': return as_int(se.concretize(r[0])), n
        if isinstance(r, dict) and r.get('__ty') == 'RangeTo': return 0, as_int(se.concretize(r[0]))
        raise Inconclusive('range %r' % (r,))
    def vec_drain(se, env, pc, v, r):
        l = the_list(se, env, v); a, b = _rng(se, l, r)
        if a > b or b > len(l):
            se.panics.append((list(pc), 'drain range out of bounds (summary)', 'summary')); return []
        se.store(env, v, l[:a] + l[b:]); return one(env, {'it': l[a:b]})
    P[r'Vec::drain'] = vec_drain
    def conc(se, n):
        c = se.concretize(n)
        if c is None: raise Inconclusive('symbolic position %s in a list operation' % n)
        return c
    P[r'Vec::truncate'] = lambda se, env, pc, v, n: (se.store(env, v, the_list(se, env, v)[:conc(se, n)]), one(env, ()))[1]
    def vec_insert(se, env, pc, v, i, x):
        l = the_list(se, env, v); k = conc(se, i)
        if k > len(l):
            se.panics.append((list(pc), 'insertion index out of bounds (summary)', 'summary')); return []
        se.store(env, v, l[:k] + [x] + l[k:]); return one(env, ())
    P[r'Vec::insert'] = vec_insert
    def vec_remove(se, env, pc, v, i):
        l = the_list(se, env, v); k = conc(se, i)
        if k >= len(l):
            se.panics.append((list(pc), 'removal index out of bounds (summary)', 'summary')); return []
        se.store(env, v, l[:k] + l[k + 1:]); return one(env, l[k])
    P[r'Vec::remove'] = vec_remove
    def vec_swap_remove(se, env, pc, v, i):
        l = the_list(se, env, v); k = conc(se, i)
        if k >= len(l):
            se.panics.append((list(pc), 'swap_remove index out of bounds (summary)', 'summary')); return []
        x = l[k]; l2 = list(l); l2[k] = l2[-1]; se.store(env, v, l2[:-1]); return one(env, x)
    P[r'Vec::swap_remove'] = vec_swap_remove
    def vec_pop(se, env, pc, v):
        l = se.deref(env, v)
        if not isinstance(l, list): raise Inconclusive('pop of %r' % (l,))
        if not l: return one(env, Enum('None'))
        se.store(env, v, l[:-1]); return one(env, Enum('Some', (l[-1],)))
    P[r'Vec::pop'] = vec_pop
    P[r'core::slice::<impl \[.*\]>::reverse'] = lambda se, env, pc, v: (se.store(env, v, list(reversed(the_list(se, env, v)))), one(env, ()))[1]
    def vec_split_off(se, env, pc, v, n):
        l = the_list(se, env, v); k = conc(se, n); se.store(env, v, l[:k]); return one(env, l[k:])
    P[r'Vec::split_off'] = vec_split_off
    def vec_extend(se, env, pc, v, src):
        s_ = se.deref(env, src) if isinstance(src, Ref) else src
        items = s_['it'] if isinstance(s_, dict) and 'it' in s_ else (s_ if isinstance(s_, list) else None)
        if items is None: raise Inconclusive('extend with %r' % (s_,))
        items = [se.deref(env, x) if isinstance(x, Ref) else x for x in items]
        se.store(env, v, the_list(se, env, v) + list(items)); return one(env, ())
    P[r'<Vec<(?!u8>).*> as Extend<.*>>::extend'] = vec_extend
    P[r'Vec::extend_from_slice'] = vec_extend
    P[r'<Vec<.*> as Index(?:Mut)?<.*>>::index(?:_mut)?'] = vec_index
    P[r'<\[.*\] as Index(?:Mut)?<.*>>::index(?:_mut)?'] = vec_index
    P[r'core::slice::<impl \[.*\]>::iter(?:_mut)?'] = slice_iter
    P[r'<&(?:mut )?(?:Vec<.*>|\[.*\]) as IntoIterator>::into_iter'] = slice_iter
    P[r'<(?:Vec<.*>|std::ops::Range<usize>|std::vec::IntoIter<.*>|std::slice::Iter(?:Mut)?<.*>|Enumerate<.*>|Rev<.*>|Skip<.*>|\[.*; \d+\]) as IntoIterator>::into_iter'] = into_iter_owned
    P[r'<(?:std::slice::Iter(?:Mut)?<.*>|std::ops::Range<usize>|std::vec::IntoIter<.*>|Enumerate<.*>|Rev<.*>|Skip<.*>|std::array::IntoIter<.*>) as Iterator>::next'] = it_next
    P[r'<std::vec::Drain<.*> as IntoIterator>::into_iter'] = into_iter_owned
    P[r'<std::vec::Drain<.*> as Iterator>::next'] = it_next
    P[r'<.* as DoubleEndedIterator>::next_back'] = it_next_back
    # Option as a 0 / 1 element iterator, chained iterators (both plain element lists)
    def opt_into_iter(se, env, pc, o):
        o = se.deref(env, o) if isinstance(o, Ref) else o
        if not isinstance(o, Enum) or o.tag not in ('Some', 'None'): raise Inconclusive('into_iter over %r' % (o,))
        return one(env, {'it': [o.fields[0]] if o.tag == 'Some' else []})
    P[r'<Option<.*> as IntoIterator>::into_iter'] = opt_into_iter
    P[r'Option::<.*>::iter|Option::iter'] = opt_into_iter
    def it_chain(se, env, pc, a, b):
        if isinstance(b, Enum) and b.tag in ('Some', 'None'): b = {'it': [b.fields[0]] if b.tag == 'Some' else []}
        if isinstance(b, list): b = {'it': list(b)}
        if not (isinstance(a, dict) and 'it' in a and isinstance(b, dict) and 'it' in b) or a.get('maps') or b.get('maps'): raise Inconclusive('chain of %r and %r' % (a, b))
        return one(env, {'it': list(a['it']) + list(b['it'])})
    P[r'<.* as Iterator>::chain'] = it_chain
    P[r'<(?:std::iter::)?Chain<.*> as IntoIterator>::into_iter'] = into_iter_owned
    P[r'<(?:(?:std::iter::)?Chain<.*>|std::option::IntoIter<.*>|std::option::Iter<.*>) as Iterator>::next'] = it_next
    P[r'<.* as Iterator>::rev'] = it_rev
    P[r'<.* as Iterator>::enumerate'] = it_enumerate
    P[r'<.* as Iterator>::skip'] = it_skip
    P[r'core::slice::<impl \[.*\]>::first(?:_mut)?'] = first_last(0)
    P[r'core::slice::<impl \[.*\]>::last(?:_mut)?'] = first_last(-1)
    P[r'<Vec<.*> as Clone>::clone'] = clone_deep
    P[r'core::slice::<impl \[.*\]>::to_vec'] = clone_deep
    P[r'std::slice::<impl \[.*\]>::to_vec'] = clone_deep
    P[r'<\[.*\] as ToOwned>::to_owned'] = clone_deep
    # abstract byte strings (user keys)
    P[r'<(?:\[u8\]|Vec<u8>|&\[u8\]|&Vec<u8>) as Ord>::cmp'] = lambda se, env, pc, a, b: one(env, bytes_cmp(se, env, a, b))
    for rel in ('lt', 'le', 'gt', 'ge', 'eq', 'ne'):
        P[r'<(?:\[u8\]|Vec<u8>|&\[u8\]|&Vec<u8>|&&\[u8\]) as Partial(?:Ord|Eq)(?:<.*>)?>::' + rel] = bytes_rel(rel)
    P[r'<u64 as Ord>::cmp'] = int_cmp
    P[r'<usize as Ord>::cmp'] = int_cmp
    P[r'std::cmp::Ordering::is_eq'] = lambda se, env, pc, o: one(env, o == BitVecVal(0, 8))
    P[r'std::cmp::Ordering::is_lt'] = lambda se, env, pc, o: one(env, o == BitVecVal(0xff, 8))
    P[r'std::cmp::Ordering::is_gt'] = lambda se, env, pc, o: one(env, o == BitVecVal(1, 8))
    P[r'std::cmp::Ordering::is_ge'] = lambda se, env, pc, o: one(env, o != BitVecVal(0xff, 8))
    P[r'std::cmp::Ordering::is_le'] = lambda se, env, pc, o: one(env, o != BitVecVal(1, 8))
    P[r'std::cmp::Ordering::reverse'] = lambda se, env, pc, o: one(env, If(o == BitVecVal(0xff, 8), BitVecVal(1, 8), If(o == BitVecVal(1, 8), BitVecVal(0xff, 8), o)))
    P[r'std::io::Error::kind'] = lambda se, env, pc, e: one(env, (se.deref(env, e) if isinstance(e, Ref) else e).get('kind', Opaque('kind')) if isinstance((se.deref(env, e) if isinstance(e, Ref) else e), dict) else Opaque('kind'))
    P[r'<.* as ToString>::to_string'] = lambda se, env, pc, e: one(env, {'str': '<to_string>'})
    P[r'std::io::Error::new'] = lambda se, env, pc, kind, msg: one(env, {'kind': kind, '__ty': 'io::Error'})
    _EK = ['NotFound', 'PermissionDenied', 'ConnectionRefused', 'ConnectionReset', 'HostUnreachable', 'NetworkUnreachable', 'ConnectionAborted', 'NotConnected', 'AddrInUse', 'AddrNotAvailable',
           'NetworkDown', 'BrokenPipe', 'AlreadyExists', 'WouldBlock', 'NotADirectory', 'IsADirectory', 'DirectoryNotEmpty', 'ReadOnlyFilesystem', 'FilesystemLoop', 'StaleNetworkFileHandle',
           'InvalidInput', 'InvalidData', 'TimedOut', 'WriteZero', 'StorageFull', 'NotSeekable', 'QuotaExceeded', 'FileTooLarge', 'ResourceBusy', 'ExecutableFileBusy', 'Deadlock', 'CrossesDevices',
           'TooManyLinks', 'InvalidFilename', 'ArgumentListTooLong', 'Interrupted', 'Unsupported', 'UnexpectedEof', 'OutOfMemory', 'InProgress', 'Other', 'Uncategorized']
    def _ek(se, env, x):
        n = 0
        while isinstance(x, Ref) and n < 8: x = se.deref(env, x); n += 1
        if isinstance(x, Enum): return BitVecVal(_EK.index(x.tag), 8) if x.tag in _EK else None
        if isinstance(x, str): return BitVecVal(_EK.index(x), 8) if x in _EK else None
        return x if is_bv(x) else None
    def errkind_eq(se, env, pc, a, b):
        x, y = _ek(se, env, a), _ek(se, env, b)
        if x is None or y is None: raise Inconclusive('comparison of error kinds %r %r' % (a, b))
        if x.size() != y.size(): raise Inconclusive('error kinds of different widths')
        return one(env, x == y)
    P[r'<(?:std::io::)?ErrorKind as PartialEq>::eq'] = errkind_eq
    P[r'<(?:std::io::)?ErrorKind as PartialEq>::ne'] = lambda se, env, pc, a, b: one(env, Not(errkind_eq(se, env, pc, a, b)[0][1]))
    def _full(se, env, v):
        n = 0
        while isinstance(v, Ref) and n < 10: v = se.deref(env, v); n += 1
        return v
    def range_contains(incl):
        def f(se, env, pc, r, x):
            rv = _full(se, env, r); a, b, xv = _full(se, env, rv[0]), _full(se, env, rv[1]), _full(se, env, x)
            if not (is_bv(a) and is_bv(b) and is_bv(xv)): raise Inconclusive('Range::contains over %r %r %r' % (a, b, xv))
            return one(env, And(ULE(a, xv), ULE(xv, b) if incl else ULT(xv, b)))
        return f
    P[r'std::ops::Range::contains|std::ops::Range::<.*>::contains'] = range_contains(False)
    P[r'std::ops::RangeInclusive::contains|std::ops::RangeInclusive::<.*>::contains'] = range_contains(True)
    P[r'<std::io::Error as From<std::io::ErrorKind>>::from'] = lambda se, env, pc, kind: one(env, {'kind': kind, '__ty': 'io::Error'})
    P[r'std::mem::drop'] = unit
    combinator_summaries(P)
    P[r'core::mem::drop'] = unit
    return S


def ref_partial_ord(mir, ty):
    """`<&T as PartialOrd>::{lt,le,gt,ge}` and `<&T as PartialEq>::{eq,ne}` of std delegate to T's own impls (inlined from MIR)."""
    P = {}
    pc_fn = mir.method(ty, 'partial_cmp', 'PartialOrd')
    eq_fn = mir.method(ty, 'eq', 'PartialEq')
    def rel(name):
        def f(se, env, pc, a, b):
            a1, b1 = a, b
            # &&T -> &T
            va, vb = get_at(env[a.local], a.path), get_at(env[b.local], b.path)
            if isinstance(va, Ref): a1 = va
            if isinstance(vb, Ref): b1 = vb
            def post(r):
                o = r.fields[0]
                L, E, G = o == BitVecVal(0xff, 8), o == BitVecVal(0, 8), o == BitVecVal(1, 8)
                return {'lt': L, 'le': Or(L, E), 'gt': G, 'ge': Or(G, E)}[name]
            return Delegate(pc_fn, [a1, b1], post, merge=True)
        return f
    for n in ('lt', 'le', 'gt', 'ge'):
        P[r'<&+%s as PartialOrd>::%s' % (ty, n)] = rel(n)
        P[r'<%s as PartialOrd>::%s' % (ty, n)] = rel(n)
        P[r'<&*Rc<%s> as PartialOrd>::%s' % (ty, n)] = rel(n)      # Rc is transparent in the value model
    def eqf(neg):
        def f(se, env, pc, a, b):
            a1, b1 = a, b
            va, vb = get_at(env[a.local], a.path), get_at(env[b.local], b.path)
            if isinstance(va, Ref): a1 = va
            if isinstance(vb, Ref): b1 = vb
            return Delegate(eq_fn, [a1, b1], (lambda r: Not(r)) if neg else (lambda r: r), merge=True)
        return f
    P[r'<&+%s as PartialEq>::eq' % ty] = eqf(False); P[r'<&+%s as PartialEq>::ne' % ty] = eqf(True)
    P[r'<%s as PartialEq>::ne' % ty] = eqf(True)
    return P


@cps
def sort_by_key(se, env, pc, vals, cont):
    """slice::sort_by_key with a key closure: fork over the permutations consistent with the (stable) order of the keys."""
    import itertools
    r, clo = vals
    lst = the_list(se, env, r)
    n = len(lst)
    if n > 4: raise Inconclusive('sort of more than 4 elements')
    base = base_ref(se, env, r)
    keys = []
    def getkeys(i, env, pc):
        if i == n: return have_keys(env, pc)
        apply_closure(se, env, pc, clo, [Ref(base.local, base.path + (i,))], lambda k, e, p: (keys.append(k), getkeys(i + 1, e, p)))
    def less(a, b):
        if isinstance(a, dict) and a.get('__ty') == 'Reverse': return less(b[0], a[0])
        if is_bv(a): return ULT(a, b)
        raise Inconclusive('sort key %r' % (a,))
    def eq(a, b):
        if isinstance(a, dict) and a.get('__ty') == 'Reverse': return a[0] == b[0]
        return a == b
    def have_keys(env, pc):
        ks = keys[-n:] if n else []
        for perm in itertools.permutations(range(n)):
            conds = []
            for x, y in zip(perm, perm[1:]):
                conds.append(Or(less(ks[x], ks[y]), And(eq(ks[x], ks[y]), BoolVal(x < y))))
            c = And(*conds) if conds else BoolVal(True)
            def go(perm=perm, c=c):
                e = dict(env); se.store(e, r, [lst[i] for i in perm]); cont((), e, pc + [c])
            se.under(c, go)
    getkeys(0, env, pc)
