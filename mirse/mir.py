"""MIR dump handling for Engine B: produce the dump from /repo's working tree, parse functions,
resolve call targets to crate functions, extract enum discriminants from the source."""
import hashlib, os, re, subprocess, sys, time

REPO = os.environ.get('VERIF_REPO', '/repo')
WORK = os.environ.get('VERIF_WORK', os.path.join(os.path.dirname(os.path.dirname(os.path.abspath(__file__))), '.work'))


def source_hash(repo=REPO):
    h = hashlib.sha256()
    paths = []
    for root, _, files in os.walk(os.path.join(repo, 'src')):
        for f in files:
            if f.endswith('.rs'): paths.append(os.path.join(root, f))
    paths.append(os.path.join(repo, 'Cargo.toml'))
    for p in sorted(paths):
        h.update(p.encode()); h.update(open(p, 'rb').read())
    return h.hexdigest()[:16]


def dump_mir(repo=REPO, work=WORK):
    """Regenerate (or reuse, keyed by a hash of the sources) the MIR text of the crate. Returns (path, seconds, cached)."""
    os.makedirs(os.path.join(work, 'mir'), exist_ok=True)
    hsh = source_hash(repo)
    out = os.path.join(work, 'mir', hsh + '.mir')
    if os.path.exists(out) and os.path.getsize(out) > 100000:
        return out, 0.0, True
    lock = os.path.join(work, 'mir', 'lock')
    import fcntl
    with open(lock, 'w') as lf:
        fcntl.flock(lf, fcntl.LOCK_EX)
        if os.path.exists(out) and os.path.getsize(out) > 100000:
            return out, 0.0, True
        t0 = time.time()
        tdir = os.path.join(work, 'target-mir')
        # force rustc to run again for the lib (an up-to-date fingerprint would print nothing)
        fp = os.path.join(tdir, 'debug', '.fingerprint')
        if os.path.isdir(fp):
            for d in os.listdir(fp):
                if d.startswith('raindb-'):
                    subprocess.run(['rm', '-rf', os.path.join(fp, d)])
        env = dict(os.environ, CARGO_TARGET_DIR=tdir, CARGO_NET_OFFLINE='true')
        env.pop('RUSTFLAGS', None)
        p = subprocess.run(['cargo', '+nightly', 'rustc', '--offline', '--lib', '--features', 'verif', '--',
                            '-Zunpretty=mir', '-Awarnings'], cwd=repo, env=env, capture_output=True, text=True)
        if p.returncode != 0 or len(p.stdout) < 100000:
            sys.stderr.write(p.stderr[-4000:])
            raise RuntimeError('MIR dump failed (does /repo compile?)')
        tmp = out + '.tmp%d' % os.getpid()
        open(tmp, 'w').write(p.stdout)
        os.replace(tmp, out)
        # keep only the three newest dumps
        dumps = sorted([os.path.join(work, 'mir', f) for f in os.listdir(os.path.join(work, 'mir')) if f.endswith('.mir')], key=os.path.getmtime)
        for old in dumps[:-3]: os.remove(old)
        return out, time.time() - t0, False


def split_top(s, sep=', '):
    out, depth, cur, i = [], 0, '', 0
    while i < len(s):
        ch = s[i]
        if ch in '([{<': depth += 1
        elif ch in ')]}': depth -= 1
        elif ch == '>' and not (i > 0 and s[i - 1] in '-='): depth -= 1
        if depth == 0 and s.startswith(sep, i):
            out.append(cur); cur = ''; i += len(sep); continue
        cur += ch; i += 1
    if cur != '' or out: out.append(cur)
    return out


def strip_generics(name):
    """Remove every <...> group that follows `::` (turbofish) from a path."""
    out, i = '', 0
    while i < len(name):
        if name.startswith('::<', i) and not name.startswith('::<impl', i):
            depth, j = 0, i + 2
            while True:
                if name[j] == '<': depth += 1
                elif name[j] == '>' and name[j - 1] not in '-=':
                    depth -= 1
                    if depth == 0: break
                j += 1
            i = j + 1
        else:
            out += name[i]; i += 1
    return out


def strip_all_generics(ty):
    """`Vec<Arc<X>>` -> `Vec`; used to compare type heads."""
    out, depth = '', 0
    for i, ch in enumerate(ty):
        if ch == '<': depth += 1
        elif ch == '>' and (i == 0 or ty[i - 1] not in '-='): depth -= 1
        elif depth == 0: out += ch
    return out


class Fn:
    def __init__(self, sig, body):
        self.sig, self.body = sig, body
        self.blocks, self.locals = None, None
        m = re.match(r'fn (.*?)\((.*)\) -> (.*) \{$', sig)
        self.path = m.group(1) if m else sig
        self.params = m.group(2) if m else ''
        self.ret = m.group(3) if m else ''
        self.name = self.path.split('::')[-1] if '{closure' not in self.path.split('::')[-1] else self.path.split('::')[-1]
        mi = re.search(r'<impl at (src/[^:]+):(\d+):(\d+): (\d+):(\d+)>', self.path)
        self.impl_at = (mi.group(1), int(mi.group(2))) if mi else None
        self.self_ty = self.trait = self.trait_full = None

    def parse(self):
        if self.blocks is not None: return
        self.blocks, self.locals, cur = {}, {}, None
        for i, p in enumerate(split_top(self.params)):
            mm = re.match(r'(_\d+): (.*)$', p.strip())
            if mm: self.locals[mm.group(1)] = mm.group(2)
        for l in self.body:
            m = re.match(r'\s+let (?:mut )?(_\d+): (.*);$', l)
            if m: self.locals[m.group(1)] = m.group(2); continue
            m = re.match(r'\s+(bb\d+)( \(cleanup\))?: \{', l)
            if m: cur = m.group(1); self.blocks[cur] = []; continue
            if cur is not None:
                if l.strip() == '}': cur = None
                else: self.blocks[cur].append(l.strip())


class MirDump:
    def __init__(self, path, repo=REPO):
        self.path, self.repo = path, repo
        lines = open(path).read().split('\n')
        self.fns, self.by_name = {}, {}
        i = 0
        while i < len(lines):
            l = lines[i]
            if l.startswith('fn ') or (l.startswith(('const ', 'static ')) and l.rstrip().endswith('{')):
                j = i
                while lines[j] != '}': j += 1
                f = Fn(l, lines[i:j + 1]); self.fns[l] = f; i = j
            i += 1
        self.const_inline, self.const_fns = {}, {}
        for l in lines:
            m = re.match(r'(?:const|static) (.*): (.*?) = const (.*);$', l)
            if m: self.const_inline[m.group(1)] = 'const ' + m.group(3)
        for sig, f in self.fns.items():
            m = re.match(r'(?:const|static) (.*): (.*?) = \{$', sig)
            if m: self.const_fns[m.group(1)] = f
        self._src = {}
        for f in self.fns.values():
            if f.impl_at:
                f.self_ty, f.trait, f.trait_full = self._impl_header(*f.impl_at)
            self.by_name.setdefault(f.name, []).append(f)
        self.closures = {}
        for f in self.fns.values():
            m = re.search(r'\{closure@(src/[^}]+)\}', f.params.split(', ')[0]) if '{closure#' in f.path else None
            if m: self.closures[m.group(1)] = f
        self.enum_discr = self._enums()

    def _lines(self, rel):
        if rel not in self._src:
            try: self._src[rel] = open(os.path.join(self.repo, rel)).read().split('\n')
            except OSError: self._src[rel] = []
        return self._src[rel]

    def _impl_header(self, rel, line):
        ls = self._lines(rel)
        if line - 1 >= len(ls): return (None, None, None)
        text = ' '.join(ls[line - 1:line + 3])
        m = re.match(r'\s*(?:unsafe )?impl(?:<[^>]*>)?\s+(?:([^{]+?)\s+for\s+)?([^{]+?)\s*(?:where|\{)', text)
        if m:
            tr = m.group(1); ty = m.group(2).strip()
            return (strip_all_generics(ty).replace("&'_ ", '&').strip(), strip_all_generics(tr).strip() if tr else None, tr.strip() if tr else None)
        # derive(...) attribute: the trait is the word at the column; self type = next struct/enum
        seg = ls[line - 1]
        if 'derive' in seg:
            for k in range(line, min(line + 30, len(ls))):
                mm = re.match(r'\s*(?:pub(?:\([a-z]+\))? )?(?:struct|enum) (\w+)', ls[k])
                if mm: return (mm.group(1), 'derive', 'derive')
        return (None, None, None)

    def _enums(self):
        """variant name -> {enum name: discriminant} for every enum declared in the crate sources."""
        table = {}
        for root, _, files in os.walk(os.path.join(self.repo, 'src')):
            for fn in files:
                if not fn.endswith('.rs'): continue
                txt = open(os.path.join(root, fn)).read()
                txt = re.sub(r'/\*.*?\*/', '', txt, flags=re.S); txt = re.sub(r'//[^\n]*', '', txt)
                for m in re.finditer(r'\benum (\w+)(?:<[^>]*>)?\s*\{', txt):
                    depth, j = 1, m.end()
                    while depth and j < len(txt):
                        depth += {'{': 1, '}': -1}.get(txt[j], 0); j += 1
                    body = txt[m.end():j - 1]
                    nxt = 0
                    for part in split_top(re.sub(r'#\[[^\]]*\]', '', body), ','):
                        part = part.strip()
                        vm = re.match(r'(\w+)\s*(?:\([^)]*\)|\{[^}]*\})?\s*(?:=\s*(\d+))?$', part, flags=re.S)
                        if not vm: continue
                        if vm.group(2) is not None: nxt = int(vm.group(2))
                        table.setdefault(vm.group(1), {})[m.group(1)] = nxt; nxt += 1
        return table

    # ---- call resolution
    def find_free(self, path):
        c = [f for f in self.fns.values() if f.impl_at is None and (f.path == path or f.path.endswith('::' + path) or path.endswith('::' + f.path))]
        return c[0] if len(c) == 1 else None

    def resolve(self, callee):
        """Map the callee text of a MIR call terminator (generics already stripped) to a crate Fn, or None."""
        m = re.match(r'<(.+) as (.+)>::(\w+)$', callee)
        if m:
            ty, tr, name = strip_all_generics(m.group(1)).strip(), strip_all_generics(m.group(2)).strip(), m.group(3)
            tr = tr.split('::')[-1]; ty = ty.split('::')[-1] if not ty.startswith(('&', '[', '(')) else ty
            c = [f for f in self.by_name.get(name, []) if f.self_ty and f.self_ty.split('::')[-1] == ty and f.trait and f.trait.split('::')[-1] == tr]
            if len(c) == 1: return c[0]
            if len(c) > 1:        # several impls of a generic trait (From<A>, From<B>): compare the last path segment of the trait arguments
                am = re.search(r'<(.*)>$', m.group(2).strip())
                if am:
                    want = strip_all_generics(am.group(1)).replace('&', '').strip().split('::')[-1]
                    c2 = [f for f in c if f.trait_full and re.search(r'<(.*)>$', f.trait_full) and
                          strip_all_generics(re.search(r'<(.*)>$', f.trait_full).group(1)).replace('&', '').strip().split('::')[-1] == want]
                    if len(c2) == 1: return c2[0]
                return None
            if not c and tr in ('Clone', 'PartialEq', 'Debug', 'Hash', 'Eq', 'Default', 'PartialOrd', 'Ord'):
                c = [f for f in self.by_name.get(name, []) if f.self_ty == ty and f.trait == 'derive' and self._derive_matches(f, tr)]
                if len(c) == 1: return c[0]
            return None
        parts = callee.split('::')
        name = parts[-1]
        if len(parts) >= 2 and re.match(r'[A-Z]', parts[-2] or ''):
            ty = parts[-2]
            c = [f for f in self.by_name.get(name, []) if f.self_ty and f.self_ty.split('::')[-1] == ty and f.trait is None]
            if len(c) == 1: return c[0]
            if len(c) > 1: return None
            c = [f for f in self.by_name.get(name, []) if f.self_ty and f.self_ty.split('::')[-1] == ty]
            if len(c) == 1: return c[0]
            return None
        return self.find_free(callee)

    def _derive_matches(self, f, tr):
        want = {'Clone': 'clone', 'PartialEq': 'eq', 'Debug': 'fmt', 'Hash': 'hash', 'Default': 'default', 'PartialOrd': 'partial_cmp', 'Ord': 'cmp'}.get(tr)
        return f.name == want

    def fn_by_suffix(self, suffix):
        c = [f for f in self.fns.values() if f.path == suffix or f.path.endswith('::' + suffix) or (f.impl_at is None and suffix.endswith('::' + f.path))]
        if len(c) != 1: raise KeyError('%d functions match %r' % (len(c), suffix))
        return c[0]

    def method(self, ty, name, trait=None):
        c = [f for f in self.by_name.get(name, []) if f.self_ty and f.self_ty.split('::')[-1] == ty and (trait is None and (f.trait is None) or (trait is not None and f.trait and f.trait.split('::')[-1] == trait))]
        if len(c) != 1: raise KeyError('%d functions match %s::%s (trait %s)' % (len(c), ty, name, trait))
        return c[0]

    def find_const(self, name):
        """name as referenced in an operand (`logs::BLOCK_SIZE_BYTES`, `db::DB::open::promoted[4]`) -> ('inline', text) | ('fn', Fn) | None"""
        def norm(n): return [x for x in re.sub(r'<impl at [^>]*>', '*', n).split('::') if x]
        want = norm(name)
        for table, kind in ((self.const_inline, 'inline'), (self.const_fns, 'fn')):
            cands = []
            for k, v in table.items():
                have = norm(k)
                if have[-1] != want[-1]: continue
                if 'promoted[' in want[-1] or '{constant#' in want[-1]:
                    if len(have) >= 2 and len(want) >= 2 and have[-2] != want[-2]: continue
                cands.append((k, v, have))
            if len(cands) > 1:      # disambiguate by as many trailing segments as possible
                best = []
                for k, v, have in cands:
                    n = 0
                    while n < min(len(have), len(want)) and (have[-1 - n] == want[-1 - n] or have[-1 - n] == '*'): n += 1
                    best.append((n, k, v))
                best.sort(key=lambda t: -t[0])
                if len(best) > 1 and best[0][0] == best[1][0]: continue
                return (kind, best[0][2])
            if len(cands) == 1: return (kind, cands[0][1])
        return None

    def struct_fields(self, name):
        """Field names of `struct name { ... }` in declaration order (= MIR field indices)."""
        if not hasattr(self, '_structs'):
            self._structs = {}
            for root, _, files in os.walk(os.path.join(self.repo, 'src')):
                for fn in files:
                    if not fn.endswith('.rs'): continue
                    txt = open(os.path.join(root, fn)).read()
                    txt = re.sub(r'/\*.*?\*/', '', txt, flags=re.S); txt = re.sub(r'//[^\n]*', '', txt)
                    for m in re.finditer(r'\bstruct (\w+)(?:<[^>{]*>)?\s*(?:where[^{]*)?\{', txt):
                        depth, j = 1, m.end()
                        while depth and j < len(txt):
                            depth += {'{': 1, '}': -1}.get(txt[j], 0); j += 1
                        body = re.sub(r'#\[[^\]]*\]', '', txt[m.end():j - 1])
                        names = []
                        for part in split_top(body, ','):
                            fm = re.match(r'\s*(?:pub(?:\([^)]*\))?\s+)?(\w+)\s*:', part, flags=re.S)
                            if fm: names.append(fm.group(1))
                        self._structs.setdefault(m.group(1), names)
        return self._structs[name]

    def mk_struct(self, name, **fields):
        names = self.struct_fields(name)
        d = {'__ty': name}
        for k, v in fields.items(): d[names.index(k)] = v
        return d

    def field(self, name, fname): return self.struct_fields(name).index(fname)
