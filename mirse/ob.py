"""Shared pieces for Engine B obligations: abstract world builders, result records, native replay."""
import json, os, subprocess, time
from z3 import BitVec, Bool, BitVecVal, And, Or, Not, ULT, ULE, UGT, UGE, If, BoolVal, is_true, simplify
from .exec import Exec, Enum, Ref, Opaque, Inconclusive, bv
from . import lib

MAXSEQ = (1 << 64) - 1


class World:
    """Symbolic internal keys and file metadata in the executor's value model."""
    def __init__(self, mir): self.mir = mir; self.pre = []; self.vars = []

    def key(self, name, op=None):
        u, s = BitVec(name + '_u', 16), BitVec(name + '_s', 64)
        o = BitVec(name + '_o', 64) if op is None else op
        if op is None: self.pre.append(ULE(o, bv(1)))
        self.vars += [u, s] + ([o] if op is None else [])
        return self.mir.mk_struct('InternalKey', user_key=u, sequence_number=s, operation=o)

    def file(self, name, number=None):
        num = BitVec(name + '_num', 64) if number is None else bv(number)
        size = BitVec(name + '_size', 64)
        sm, lg = self.key(name + '_sm'), self.key(name + '_lg')
        self.vars += [size] + ([num] if number is None else [])
        return self.mir.mk_struct('FileMetadata', allowed_seeks=Enum('None'), file_number=num, file_size=size,
                                  smallest_key=Enum('Some', (sm,)), largest_key=Enum('Some', (lg,)))

    def K(self, k):
        n = self.mir.struct_fields('InternalKey')
        return (k[n.index('user_key')], k[n.index('sequence_number')], k[n.index('operation')])

    def F(self, f):
        n = self.mir.struct_fields('FileMetadata')
        return {'num': f[n.index('file_number')], 'size': f[n.index('file_size')], 'sm': self.K(f[n.index('smallest_key')].fields[0]),
                'lg': self.K(f[n.index('largest_key')].fields[0])}


def klt(a, b):
    """Reference order on internal keys (user key ascending, sequence descending); a, b = (ukey, seq, op)."""
    return Or(ULT(a[0], b[0]), And(a[0] == b[0], UGT(a[1], b[1])))
def kle(a, b): return Not(klt(b, a))
def keq(a, b): return And(a[0] == b[0], a[1] == b[1])


def mval(m, t):
    v = m.eval(t, model_completion=True)
    try: return v.as_long()
    except AttributeError: return bool(is_true(v))


def key_bytes(u):
    """Abstract 16-bit key -> order-preserving 2-byte user key (hex)."""
    return '%04x' % u


class Result:
    def __init__(self, name, functions, bounds):
        self.name, self.functions, self.bounds = name, list(functions), bounds
        self.paths = 0; self.queries = 0; self.solver_s = 0.0; self.blocks = 0
        self.status = 'discharged'; self.reason = ''
        self.violations = []      # dicts: label, model, replay (argv for the native replay binary), expect
        self.witnesses = []       # passing-path samples: concrete inputs + executor output, replayed natively
        self.summaries = []; self.inlined = []
        self.panic_paths = 0; self.wall_s = 0.0; self.cases = {}; self.checked = 0
        self.formulas = []

    def absorb(self, ex):
        self.paths += ex.paths; self.queries += ex.queries; self.solver_s += ex.solver_s; self.blocks += ex.blocks_run
        self.summaries = sorted(set(self.summaries) | ex.used_summaries); self.inlined = sorted(set(self.inlined) | ex.inlined)
        self.formulas += ex.formulas
        self.checked += getattr(ex, 'n_recorded', 0)
        if ex.bound_hits and self.status != 'violation':
            self.status = 'inconclusive'; self.reason = 'loop bound exceeded in %s' % ex.bound_hits[0][1]

    def to_json(self):
        d = dict(self.__dict__); d.pop('formulas', None); return d
