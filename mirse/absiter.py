"""Abstract children implementing the RainDbIterator contract over a sorted list of symbolic entries.
An iterator value is {'abstract': True, 'entries': [(key struct, value)], 'pos': int}; pos == len(entries) means invalid."""
from z3 import And, Not, BoolVal
from .exec import Enum, Ref, Opaque, Inconclusive
from .lib import one, base_ref
from .ob import klt


def make(entries): return {'abstract': True, 'entries': list(entries), 'pos': len(entries)}


def summaries(prefixes, K, value_refs=True):
    """prefixes: list of callee prefixes such as '<BlockIter<InternalKey> as RainDbIterator>::'. K(key struct) -> (u, s, o)."""
    S = {}
    def obj(se, env, r):
        v = se.deref(env, r)
        if not (isinstance(v, dict) and v.get('abstract')): raise Inconclusive('not an abstract iterator: %r' % (v,))
        return v
    def seek(se, env, pc, r, target):
        c = obj(se, env, r); t = K(se.deref(env, target)); outs = []
        ents = c['entries']
        for pos in range(len(ents) + 1):
            cond = [klt(K(e[0]), t) for e in ents[:pos]]
            if pos < len(ents): cond.append(Not(klt(K(ents[pos][0]), t)))
            outs.append((And(*cond) if cond else BoolVal(True), Enum('Ok', ((),)), env.get('$state'), [(r, dict(c, pos=pos))]))
        return outs
    def setter(posf):
        def f(se, env, pc, r):
            c = obj(se, env, r); n = len(c['entries'])
            se.store(env, r, dict(c, pos=posf(c['pos'], n))); return one(env, Enum('Ok', ((),)))
        return f
    def cur_val(se, env, r, c):
        if c['pos'] < len(c['entries']):
            b = base_ref(se, env, r)
            if value_refs: return Enum('Some', ((Ref(b.local, b.path + ('entries', c['pos'], 0)), Ref(b.local, b.path + ('entries', c['pos'], 1))),))
            return Enum('Some', (c['entries'][c['pos']],))
        return Enum('None')
    def nxt(se, env, pc, r):
        c = obj(se, env, r); n = len(c['entries']); p = c['pos']
        c2 = dict(c, pos=p + 1 if p < n else n); se.store(env, r, c2); return one(env, cur_val(se, env, r, c2))
    def prv(se, env, pc, r):
        c = obj(se, env, r); n = len(c['entries']); p = c['pos']
        c2 = dict(c, pos=n if (p == 0 or p >= n) else p - 1); se.store(env, r, c2); return one(env, cur_val(se, env, r, c2))
    for px in prefixes:
        S[px + 'seek'] = seek
        S[px + 'seek_to_first'] = setter(lambda p, n: 0)
        S[px + 'seek_to_last'] = setter(lambda p, n: n - 1 if n else 0)
        S[px + 'next'] = nxt; S[px + 'prev'] = prv
        S[px + 'is_valid'] = lambda se, env, pc, r: one(env, BoolVal(obj(se, env, r)['pos'] < len(obj(se, env, r)['entries'])))
        S[px + 'current'] = lambda se, env, pc, r: one(env, cur_val(se, env, r, obj(se, env, r)))
    return S
