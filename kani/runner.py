"""Engine A runner: Kani/CBMC proof harnesses of /verif/harness (rebuilt against /repo's working tree on every run).

Each obligation is a list of harness names. One `cargo kani` process per harness (own private target dir per obligation so
that obligations can run concurrently), under a memory limit and a timeout. Outcomes:
  SUCCESSFUL with every cover satisfied -> discharged
  FAILED with a failed property other than an unwinding assertion -> counterexample; it is replayed natively through Kani's
    concrete playback (`-Z concrete-playback`, then `cargo kani playback`) before it is reported
  unwinding assertion failed, unsatisfied cover, timeout, out of memory, compiler error -> inconclusive"""
import os, re, subprocess, time, json, shutil, concurrent.futures, resource

HERE = os.path.dirname(os.path.dirname(os.path.abspath(__file__)))
HARNESS = os.path.join(HERE, 'harness')

# obligation -> (title, [(harness, tiers)], per-harness timeout seconds quick/thorough)
OBLIGATIONS = {
    'O1.1': ('InternalKey order = (user key asc, sequence desc), antisymmetric, transitive',
             [('o1_1_ikey_order_k1', 'qt'), ('o1_1_ikey_order_k2', 'qt'), ('o1_1_ikey_order_mixed', 'qt')]),
    'O13.1': ('separators / successors: lower <= separator < upper; index-key contract used by O1.6',
              [('o13_1_bytes_separator_1_1', 'qt'), ('o13_1_bytes_separator_2_2', 'qt'), ('o13_1_bytes_separator_2_1', 'qt'), ('o13_1_bytes_separator_1_2', 'qt'),
               ('o13_1_bytes_separator_3_3', 't'), ('o13_1_bytes_successor_1', 'qt'), ('o13_1_bytes_successor_2', 'qt'), ('o13_1_bytes_successor_3', 't'),
               ('o13_1_ikey_separator_1_1', 'qt'), ('o13_1_ikey_separator_2_2', 'qt'), ('o13_1_ikey_separator_2_1', 't'),
               ('o13_1_ikey_successor_1', 'qt'), ('o13_1_ikey_successor_2', 'qt')]),
    'O14.1': ('Bloom filter answers true for every key it was created from (also when read by a policy with another bits_per_key)',
              [('o14_1_bloom_b10_l1_l4', 'qt'), ('o14_1_bloom_b1_l0_l3', 'qt'), ('o14_1_bloom_reader_other_bits', 'qt'), ('o14_1_bloom_b64_l1_l0', 'qt'), ('o14_1_bloom_b45_l0_l1', 't'), ('o14_1_bloom_b64_l5_l1', 't'), ('o14_1_bloom_b9_l4_l4', 't'), ('o14_1_bloom_b43_l3_l5', '')]),
    'O13.4': ('a block of two entries written by the real BlockBuilder (restart interval 1) and parsed by the real BlockReader: seek lands on the first entry >= target, one step moves to the neighbour',
              [('o13_4_block_small_r1_bwd', 't'), ('o13_4_block_cursor_r1_fwd', 't')]),
    'O15.1': ('unmask(mask(x)) = x for every u32', [('o15_1_crc_mask_roundtrip', 'qt')]),
    'O15.3': ('parsers never panic on arbitrary bytes',
              [('o15_3_parse_block_record_9', 'qt'), ('o15_3_parse_block_record_6', 'qt'), ('o15_3_parse_footer_48', 'qt'), ('o15_3_parse_footer_47', 't'),
               ('o15_3_parse_internal_key_10', 'qt'), ('o15_3_parse_internal_key_8', 'qt'), ('o15_3_parse_block_handle_3', 'qt')]),
    'O12.2': ('byte-exact round trip of one record (0, 1, 2 symbolic bytes) through the real writer and reader, real CRC',
              [('o12_2_log_roundtrip_len0', 'qt'), ('o12_2_log_roundtrip_len1', 'qt'), ('o12_2_log_roundtrip_len2', 't')]),
    'O12.6': ('one log fragment of every type (Full / First / Middle / Last) with 0..2 payload bytes survives serialise + parse with its type and payload (real CRC)',
              [('o12_6_fragment_roundtrip_len0', 'qt'), ('o12_6_fragment_roundtrip_len1', 'qt'), ('o12_6_fragment_roundtrip_len2', 't')]),
    'O15.2': ('a one-record log with one byte altered (crc / length / type / payload position) never yields a record that was not appended',
              [('o15_2_log_corrupt_crc0', 'qt'), ('o15_2_log_corrupt_payload7', 'qt'), ('o15_2_log_corrupt_type6', 'qt'), ('o15_2_log_corrupt_len4', ''), ('o15_2_log_corrupt_payload8', 't')]),
}
STUBS = ['alloc::fmt::format -> returns an empty String (messages of error values are not represented)']


def _limit(mem_gb):
    def f():
        resource.setrlimit(resource.RLIMIT_AS, (mem_gb << 30, mem_gb << 30))
        os.setsid()
    return f


def run_harness(name, target_dir, timeout, mem_gb, extra=(), harness=None):
    harness = harness or HARNESS
    env = dict(os.environ, CARGO_TARGET_DIR=target_dir, CARGO_NET_OFFLINE='true')
    env.pop('RUSTFLAGS', None)
    cmd = ['cargo', 'kani', '-Z', 'stubbing', '-Z', 'unstable-options', '--harness', name, '--output-format', 'terse'] + list(extra)
    t0 = time.time()
    try:
        p = subprocess.Popen(cmd, cwd=harness, env=env, stdout=subprocess.PIPE, stderr=subprocess.STDOUT, text=True, preexec_fn=_limit(mem_gb))
        try:
            out, _ = p.communicate(timeout=timeout)
            rc = p.returncode
        except subprocess.TimeoutExpired:
            try: os.killpg(p.pid, 9)
            except OSError: pass
            out, _ = p.communicate()
            return {'harness': name, 'outcome': 'timeout', 'seconds': time.time() - t0, 'detail': 'timeout after %ds' % timeout, 'out': out[-2000:]}
    except Exception as e:
        return {'harness': name, 'outcome': 'error', 'seconds': time.time() - t0, 'detail': repr(e), 'out': ''}
    r = {'harness': name, 'seconds': time.time() - t0, 'out': out[-6000:]}
    m = re.search(r'\*\* (\d+) of (\d+) failed', out); r['checks'] = int(m.group(2)) if m else 0; r['failed'] = int(m.group(1)) if m else None
    m = re.search(r'\*\* (\d+) of (\d+) cover properties satisfied', out); r['covers'] = (int(m.group(1)), int(m.group(2))) if m else (0, 0)
    m = re.search(r'Verification Time: ([\d.]+)s', out); r['solver_s'] = float(m.group(1)) if m else 0.0
    r['stubs'] = re.findall(r'- Stub: (.*)', out)
    failed_desc = re.findall(r'Failed Checks: (.*)', out)
    r['failed_checks'] = failed_desc
    if 'VERIFICATION:- SUCCESSFUL' in out:
        if r['covers'][0] < r['covers'][1]: r['outcome'] = 'inconclusive'; r['detail'] = 'only %d of %d cover witnesses reachable' % r['covers']
        else: r['outcome'] = 'ok'
    elif 'VERIFICATION:- FAILED' in out:
        real = [d for d in failed_desc if 'unwinding assertion' not in d]
        if 'Status: ERROR' in out or 'out of memory' in out.lower(): r['outcome'] = 'inconclusive'; r['detail'] = 'solver error / out of memory'
        elif real: r['outcome'] = 'fail'; r['detail'] = '; '.join(real[:3])
        elif not failed_desc: r['outcome'] = 'inconclusive'; r['detail'] = 'no verdict: the back end stopped without naming a failed check (out of memory under the %d GB limit?)' % mem_gb
        else: r['outcome'] = 'inconclusive'; r['detail'] = 'unwinding bound too small: ' + '; '.join(failed_desc[:2])
    else:
        r['outcome'] = 'inconclusive'; r['detail'] = 'no verdict (compiler error, crash, rc=%s): %s' % (rc, out[-400:].replace('\n', ' | '))
    return r


def playback(name, target_dir, timeout, harness=None):
    harness = harness or HARNESS
    """Concrete playback of a failing harness: Kani prints a unit test with the counterexample's bytes; the test is run
    natively (cargo kani playback) in a scratch copy of the harness crate. Returns (reproduced, detail)."""
    env = dict(os.environ, CARGO_TARGET_DIR=target_dir, CARGO_NET_OFFLINE='true')
    env.pop('RUSTFLAGS', None)
    cmd = ['cargo', 'kani', '-Z', 'stubbing', '-Z', 'unstable-options', '-Z', 'concrete-playback', '--concrete-playback=print', '--harness', name, '--output-format', 'terse']
    try:
        p = subprocess.run(cmd, cwd=harness, env=env, capture_output=True, text=True, timeout=timeout, preexec_fn=_limit(16))
    except subprocess.TimeoutExpired:
        return (None, 'playback generation timed out')
    blocks = re.findall(r'```\n(.*?)```', p.stdout, flags=re.S)
    blocks = [b for b in blocks if '#[test]' in b and 'kani::concrete_playback_run' in b]
    if not blocks: return (None, 'no concrete playback test printed')
    pick = [b for b in blocks if 'Check for `cover`' not in b] or blocks
    test_src = pick[0]
    test_name = re.search(r'fn (kani_concrete_playback_\w+)\(\)', test_src).group(1)
    scratch = os.path.join(HERE, '.work', 'playback-%d-%s' % (os.getpid(), name))
    shutil.rmtree(scratch, ignore_errors=True)
    shutil.copytree(harness, scratch, ignore=shutil.ignore_patterns('target'))
    src = open(os.path.join(scratch, 'src', 'proofs.rs')).read()
    open(os.path.join(scratch, 'src', 'proofs.rs'), 'w').write(src + '\n' + test_src + '\n')
    env2 = dict(env); env2.pop('CARGO_TARGET_DIR', None)
    env2['CARGO_TARGET_DIR'] = target_dir + '-playback'
    try:
        q = subprocess.run(['cargo', 'kani', 'playback', '-Z', 'concrete-playback', '--', test_name], cwd=scratch, env={k: v for k, v in env2.items() if k != 'CARGO_TARGET_DIR'},
                           capture_output=True, text=True, timeout=timeout)
        out = q.stdout + q.stderr
    except subprocess.TimeoutExpired:
        shutil.rmtree(scratch, ignore_errors=True); return (None, 'native playback timed out')
    shutil.rmtree(scratch, ignore_errors=True)
    vals = re.findall(r'// (.*)\n\s*vec!\[', test_src)
    failed = 'test result: FAILED' in out or 'panicked at' in out
    msg = re.search(r"panicked at [^\n]*\n([^\n]*)", out)
    return (failed, ('native playback panics: %s' % (msg.group(1).strip() if msg else '?')) if failed else 'native playback passes (not reproduced)')


def run(names, tier, seed, work, jobs, harness=None, repo='/repo'):
    # concurrent check processes share the compiled target directories of one work directory: one Kani stage at a time
    import fcntl
    os.makedirs(work, exist_ok=True)
    with open(os.path.join(work, 'kani.lock'), 'w') as lk:
        fcntl.flock(lk, fcntl.LOCK_EX)
        try: return _run(names, tier, seed, work, jobs, harness, repo)
        finally: fcntl.flock(lk, fcntl.LOCK_UN)


def _run(names, tier, seed, work, jobs, harness=None, repo='/repo'):
    harness = harness or HARNESS
    """-> {obligation: result dict in the format of the Engine B results}"""
    results = {}
    t_quick, t_thor = 600, 3600
    tasks = []
    tkey = 'q' if tier == 'quick' else 't'
    base_td = os.path.join(work, 'target-kani')
    # one shared target dir: compile once up front, then the harnesses only run kani-compiler / cbmc steps
    env = dict(os.environ, CARGO_TARGET_DIR=base_td, CARGO_NET_OFFLINE='true'); env.pop('RUSTFLAGS', None)
    lock_src, lock_dst = os.path.join(repo, 'Cargo.lock'), os.path.join(harness, 'Cargo.lock')
    if os.path.exists(lock_src) and not os.path.exists(lock_dst): shutil.copy(lock_src, lock_dst)
    t0 = time.time()
    pre = subprocess.run(['cargo', 'kani', '-Z', 'stubbing', '-Z', 'unstable-options', '--only-codegen'], cwd=harness, env=env, capture_output=True, text=True)
    t_build = time.time() - t0
    if pre.returncode != 0:
        for n in names:
            results[n] = _blank(n, 'inconclusive', 'kani-compiler failed on the current tree: ' + (pre.stdout + pre.stderr)[-600:].replace('\n', ' | '))
        return results
    for n in names:
        for h, tiers in OBLIGATIONS[n][1]:
            if tkey in tiers: tasks.append((n, h))
    # one private copy of the compiled target directory per worker: concurrent kani-driver runs in one directory disturb each other
    import queue
    nworkers = max(1, min(jobs, 6, len(tasks)))
    slots = queue.Queue()
    for i in range(nworkers):
        d = '%s-w%d' % (base_td, i)
        subprocess.run(['rsync', '-a', '--delete', base_td + '/', d + '/'])
        slots.put(d)
    def work(h):
        d = slots.get()
        try: return run_harness(h, d, t_quick if tier == 'quick' else t_thor, 8 if tier == 'quick' else 16, harness=harness)
        finally: slots.put(d)
    per = {}
    with concurrent.futures.ThreadPoolExecutor(max_workers=nworkers) as pool:
        futs = {pool.submit(work, h): (n, h) for n, h in tasks}
        for f in concurrent.futures.as_completed(futs):
            n, h = futs[f]; per.setdefault(n, []).append(f.result())
    for n in names:
        rs = sorted(per.get(n, []), key=lambda r: r['harness'])
        res = _blank(n, 'discharged', '')
        res['functions'] = ['harness %s' % r['harness'] for r in rs]
        res['bounds'] = 'shapes (lengths / counts / positions) are constants of each harness instance, contents symbolic; unwinding assertions on'
        res['paths'] = len(rs); res['queries'] = sum(r.get('checks', 0) for r in rs); res['solver_s'] = sum(r.get('solver_s', 0) for r in rs)
        res['blocks'] = sum(r.get('checks', 0) for r in rs)
        res['summaries'] = STUBS; res['wall_s'] = sum(r['seconds'] for r in rs) + t_build
        res['extra'] = {'harnesses': [{k: r.get(k) for k in ('harness', 'outcome', 'checks', 'covers', 'solver_s', 'seconds', 'detail')} for r in rs], 'kani_build_s': round(t_build, 1)}
        for r in rs:
            if r['outcome'] == 'fail':
                rep, detail = playback(r['harness'], base_td, 900, harness=harness)
                res['violations'].append({'label': '%s: %s' % (re.sub(r'_(?:len|l|b|k)?\d.*$', '', r['harness']), r['detail'][:160]), 'harness': r['harness'], 'replay': None,
                                          'confirmed_by': {'reproduced': bool(rep), 'detail': detail}})
            elif r['outcome'] != 'ok':
                res['status'] = 'inconclusive'; res['reason'] = '%s: %s' % (r['harness'], r.get('detail', r['outcome']))
            else:
                res['witnesses'].append({'harness': r['harness'], 'checks': r.get('checks'), 'covers_satisfied': r.get('covers')})
        if res['violations']: res['status'] = 'violation'
        results[n] = res
    return results


def _blank(n, status, reason):
    return {'name': n + ' ' + OBLIGATIONS[n][0], 'status': status, 'reason': reason, 'functions': [], 'bounds': '', 'paths': 0, 'queries': 0, 'solver_s': 0, 'blocks': 0,
            'violations': [], 'witnesses': [], 'summaries': [], 'inlined': [], 'panic_paths': 0, 'wall_s': 0, 'cases': {}, 'formulas': []}
