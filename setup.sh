#!/bin/sh
# Build the framework offline from files on disk: native replay binary (warms the cargo caches) and the MIR dump.
set -e
cd "$(dirname "$0")"
export CARGO_NET_OFFLINE=true
mkdir -p .work
[ -f harness/Cargo.lock ] || cp /repo/Cargo.lock harness/Cargo.lock
CARGO_TARGET_DIR="$PWD/.work/target-harness" cargo build --offline --quiet --bin replay --manifest-path harness/Cargo.toml
python3-vt - <<'PY'
import sys
sys.path.insert(0, '.')
from mirse import mir
print('MIR dump:', mir.dump_mir())
PY
# warm the Kani build of the harness crate (Engine A)
(cd harness && CARGO_TARGET_DIR="$PWD/../.work/target-kani" cargo kani -Z stubbing -Z unstable-options --only-codegen >/dev/null 2>&1 || echo 'kani warm-up failed (checks will retry)')
echo setup done
