#!/usr/bin/env python3-vt
"""usage: tools/run_ob.py <Ox.y> [tier]  -- run one Engine B obligation in-process on the cached MIR dump and print its result (debugging aid)."""
import sys, os, json, threading
HERE = os.path.dirname(os.path.dirname(os.path.abspath(__file__))); sys.path.insert(0, HERE)
from mirse import mir as M, registry
def body():
    p, _, _ = M.dump_mir()
    md = M.MirDump(p)
    r = registry.OBLIGATIONS[sys.argv[1]]['run'](md, sys.argv[2] if len(sys.argv) > 2 else 'quick')
    d = r.to_json()
    print('status', d['status'], d['reason'], 'paths', d['paths'], 'checked', d['checked'], 'wall', round(d['wall_s'], 1), 'cases', len(d['cases']))
    for v in d['violations'][:int(os.environ.get('NV', '8'))]: print(json.dumps({k: str(x)[:400] for k, x in v.items() if k != 'model'}, indent=1))
    print('violations', len(d['violations']))
    if os.environ.get('SHOWCASES'):
        for k, v in d['cases'].items(): print('  case', k, v)
threading.stack_size(1024 * 1024 * 1024); sys.setrecursionlimit(1000000)
t = threading.Thread(target=body); t.start(); t.join()
