#!/usr/bin/env python3
"""Trial of the thorough tier, every obligation once (snapshot of /verif, copy of /repo, no evidence written).
usage: tools/thorough_obs.py [parallel=3] -> /tmp/thorough_obs.log"""
import json, os, subprocess, sys, time, concurrent.futures as cf
HERE = os.path.dirname(os.path.dirname(os.path.abspath(__file__)))
SNAP, COPY = '/tmp/verif-thor', '/tmp/repo-thor'
subprocess.run(['rm', '-rf', SNAP, COPY]); os.makedirs(SNAP); os.makedirs(COPY)
subprocess.run('rsync -a --exclude .git --exclude ".work*" %s/ %s/' % (HERE, SNAP), shell=True, check=True)
subprocess.run('git -C /repo archive HEAD | tar -x -C %s && cp /repo/Cargo.lock %s/' % (COPY, COPY), shell=True, check=True)
sys.path.insert(0, SNAP)
from mirse import registry
todo = {}
for p, d in registry.PROPERTIES.items():
    for o in d['obligations']: todo.setdefault(o, p)
env = dict(os.environ, VERIF_REPO=COPY, VERIF_WORK=os.path.join(HERE, '.work-thor'))
# warm up (build replay, dump MIR) once
subprocess.run(['./check', 'C06', '--tier', 'quick', '--no-evidence'], cwd=SNAP, env=env, capture_output=True)


def run(item):
    o, p = item; t0 = time.time()
    r = subprocess.run(['/usr/bin/time', '-f', 'maxrss_kb=%M', 'timeout', '7200', './check', p, '--only', o, '--tier', 'thorough', '--no-evidence', '--jobs', '4'],
                       cwd=SNAP, env=env, capture_output=True, text=True)
    lines = [l for l in (r.stdout + r.stderr).splitlines() if l.startswith(('[C', 'maxrss', 'VIOLATION', 'INCONCLUSIVE', 'KNOWN'))]
    return '%s (%s) %ds rc=%d %s' % (o, p, time.time() - t0, r.returncode, ' | '.join(l[:160] for l in lines[-3:]))


par = int(sys.argv[1]) if len(sys.argv) > 1 else 3
with cf.ThreadPoolExecutor(par) as ex, open('/tmp/thorough_obs.log', 'w') as f:
    for line in ex.map(run, sorted(todo.items())):
        f.write(line + '\n'); f.flush()
