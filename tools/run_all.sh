#!/bin/bash
# run every claimed check (quick by default) and print one line per property
tier=${1:-quick}
cd /verif
for p in $(python3 -c "import json;print(' '.join(c['property_id'] for c in json.load(open('MANIFEST.json'))['checks']))"); do
  out=$(timeout 3000 ./check $p --tier $tier 2>&1 | tail -1); echo "$out"
done
