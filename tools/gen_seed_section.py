#!/usr/bin/env python3
"""Rewrite section 7 of DESIGN.md from seeded/<id>/{meta,detect}.json (run after tools/seed_matrix.py)."""
import json, os, re, collections
HERE = os.path.dirname(os.path.dirname(os.path.abspath(__file__)))
# what was built or strengthened because the seed was first missed (my own record; seeds not listed were reported by a check that already existed)
BUILT = {
 'C02a2': 'O2.6 (VersionSet::recover executed with CURRENT / manifest contents by contract) - first recorded as outside the claim, later built',
 'C15b2': 'O1.5', 'C16b2': 'O2.6', 'C04b2': 'O4.4', 'C03b2': 'O4.5', 'C05b2': 'O5.3', 'C07b1': 'O7.8', 'C07b2': 'O7.5 label for stray files', 'C08b1': 'O8.4 + combinator summaries',
 'C09b1': 'O9.3', 'C05b1': 'O9.3', 'C09b2': 'O9.4', 'C10b1': 'O10.6', 'C10b2': 'O10.7', 'C11b1': 'O11.2', 'C11b2': 'O11.3', 'C12b2': 'O12.5', 'C02b2': 'O12.5', 'C16b1': 'O12.5', 'C08b2': 'O12.5 + FaultFs len fault',
 'C02b1': 'O14.4', 'C13b1': 'O14.5', 'C14b2': 'O14.6', 'C15b1': 'O15.6', 'C14b1': 'two more Bloom harnesses (O14.1)', 'C13b2': 'O4.3 model fix (block cursor starts at 0) + reposition patterns',
 'C06b1': 'O6.4', 'C06b2': 'O6.4', 'C17c1': 'O17.3', 'C17c2': 'O17.2', 'C08c1': 'O2.8', 'C08c2': 'O2.9', 'C02c1': 'O2.10', 'C02c2': 'O2.10', 'C07c1': 'O7.3 strengthened (any input key)', 'C03c1': 'O7.3 strengthened',
 'C07c2': 'O1.4 over all seven levels', 'C03c2': 'O1.4 over all seven levels', 'C15c1': 'O15.4', 'C15c2': 'O15.9', 'C11c1': 'O11.4', 'C11c2': 'O7.9 (+ Vec::drain after the strict handling of unknown callees)', 'C01c1': 'O7.9',
 'C12c1': 'O12.6', 'C12c2': 'O12.7', 'C04c1': 'O4.2 patterns', 'C04c2': 'O4.1 patterns', 'C01c2': 'O6.2', 'C10c1': 'O10.8', 'C10c2': 'O10.8', 'C13c1': 'O14.2 native scenario filter_block_offsets',
 'C13c2': 'O14.2: symbolic index forks over positions, saturating_sub', 'C14c2': 'O14.6: Vec::dedup_by, starts_with; strict handling of unknown callees', 'C09c1': 'O9.6', 'C09c2': 'O9.7', 'C05c1': 'O11.5 (heap-cell nodes, hidden closure captures)', 'C05c2': 'O15.10',
 'C04d1': 'O4.8', 'C13d1': 'O4.8', 'C15d2': 'O15.11', 'C10d1': 'O10.9', 'C10d2': 'O10.9 (+ tuple comparisons)', 'C13d2': 'O14.7', 'C03d1': 'O3.5', 'C03d2': 'O13.3 second native scenario (mirrored ids / offsets)',
 'C12d1': 'O12.8', 'C08d2': 'O12.8', 'C12d2': 'O12.9', 'C02d1': 'O2.8 file-counter post + fresh_open_manifests', 'C08d1': 'O8.5', 'C11d1': 'O11.6', 'C11d2': 'O11.7 (structural paths)', 'C14d1': 'O14.8', 'C14d2': 'O14.8',
 'C01d2': 'O1.2: abstract value id 0 = empty value', 'C16d1': 'O2.8 native scenario torn_first_manifest', 'C06d2': 'O1.2: skip-list pair lookups', 'C17d1': 'O17.4', 'C17d2': 'O9.8 second native scenario (close during a size compaction)',
 'C01e1': 'O2.5a native scenario with the shortest WAL records', 'C08e2': 'O9.3 transient-fault scenario; O9.3 listed under C08', 'C08e1': 'O7.13', 'C10e1': 'O10.10 + layout audit step', 'C10e2': 'O10.10',
 'C09e2': 'O7.11 fault-sweep scenario; O7.11 listed under C09', 'C09e1': 'take_while / count summaries; a panicking compact_range set-up counts as reproduced; O7.8 listed under C09', 'C12e2': 'Vec::reserve summary',
 'C03e2': 'O6.1 listed under C03', 'C02e1': 'O11.1 listed under C02', 'C01e2': 'O7.4b listed under C01', 'C16e1': 'O12.4 listed under C16',
 'C02f1': 'O8.4: the temp file of a CURRENT switch is created empty + stale_temp_before_switch replay', 'C03f2': 'O3.3 with three live versions (a pinned middle one), list by contract incl. head / tail; Option / Chain iterator summaries',
 'C11f2': 'O3.3: the version set model has a current_version', 'C09f1': 'O9.3: the awaited background work may also fail + parked_writer_flush_fails replay', 'C11f1': 'O11.2 native scenario two_wal_crash_reopen',
 'C08f1': 'O14.7 listed under C08 + table_write_transient_fault_sweep replay; O8.6 built next to it', 'C10f1': 'O10.13 (several edits accumulated on one builder)', 'C15f2': 'byte-level readers: by_ref / take / read_to_end',
 'C16f1': 'O2.5a: no base version for tables written during log replay; two_wal_crash_reopen noreuse', 'C03g1': 'O3.4: Arc::strong_count as a free value, snapshots of one state in the replay, 4 operations in the quick tier',
 'C02g1': 'io::Error::new summary', 'C01g1': 'Range::contains summary', 'C02g2': 'format / must_use summaries', 'C05g2': 'O5.5 + snapshot_interleave replay (logger hook)', 'C04g2': 'O4.3: transient read error at a block crossing, then seek; FaultFs read faults',
 'C06g2': 'O4.2: deep version stacks (10 versions of one key)', 'C14g2': 'O14.2: reader offsets at and beyond 4 GiB', 'C15g2': 'O10.12: an accepted prefix is a complete encoding; hash-set insertion forks', 'C09g1': '',
 'C11h1': 'O4.1: clean-up closures monitored + exhausted_iterator_pin', 'C13h1': 'cursor patterns that reposition after falling off an end', 'C09h1': 'O15.11: relative steps into the damaged table + scan_over_unopenable_table', 'C15h2': 'O4.3: separator-contract index keys in the unreadable-block case',
 'C07h1': 'O7.4c with three / four level-0 files', 'C01h1': 'O12.10 (disk create_file) + disk_log_reuse', 'C16h2': 'O12.10 replay disk_create_file_modes', 'C12h1': 'O12.11 (in-memory file Read contract)', 'C08h2': 'O8.7 (set_bad_database_state)', 'C02h2': 'O8.7',
 'C06h2': 'O13.5: find_table never answers KeyNotFound for an unopenable file; ErrorKind comparison', 'C08i1': 'O8.8 (get_all_db_files)', 'C13i2': 'O8.6: plain write with ignored count + short_write_flush', 'C15i1': 'O13.3: file length by contract, truncated_table_read', 'C09i2': 'O9.10 (manual-compaction log line)', 'C11i2': 'O11.9 (release_inputs)', 'C10g2': 'O10.14 (SSTables descriptor order)', 'C15g1': 'O15.5 replays also alter the fragment type byte', 'C08g2': 'as C08f1', 'C11g2': 'O17.2 listed under C11',
}
rows = []
for sid in sorted(os.listdir(os.path.join(HERE, 'seeded'))):
    d = os.path.join(HERE, 'seeded', sid)
    if not os.path.isfile(os.path.join(d, 'meta.json')): continue
    meta = json.load(open(os.path.join(d, 'meta.json')))
    det = json.load(open(os.path.join(d, 'detect.json')))['results'] if os.path.exists(os.path.join(d, 'detect.json')) else {}
    caught = [p for p, x in det.items() if x.get('exit') == 1]
    obs = sorted(set(l.strip().split(':')[0] for p in caught for l in det[p]['lines'] if l.startswith('  O')))
    outcome = ('exit 1: ' + ', '.join(caught)) if caught else ('exit 2 (inconclusive): ' + ', '.join(p for p, x in det.items() if x.get('exit') == 2) if any(x.get('exit') == 2 for x in det.values()) else ('not run' if not det else 'not reported'))
    fn = re.sub(r'\s*\(.*', '', meta.get('function', ''))[:70]
    rows.append((sid, fn, outcome, ', '.join(obs), BUILT.get(sid, '')))
n = len(rows); c = len([r for r in rows if r[2].startswith('exit 1')])
by_round = collections.Counter(r[0][3] for r in rows)
text = ['## 7. Seeded changes (independent sub-agents, property text only)', '',
        '%d changes in %d rounds (%s), each written by a fresh sub-agent that saw only the text of one property and its own scratch' % (n, len(by_round), ', '.join('%s: %d' % (k, v) for k, v in sorted(by_round.items()))),
        'worktree, and each confirmed by me in another scratch worktree (`tools/verify_seed.sh`: the demonstration passes without and',
        'fails with the change; the existing suite passes with it). Rounds c and d carried an exclusion list of the functions already',
        'used, which pushed the later changes into code no check covered yet (block iterator, file metadata, file names, table cache,',
        'snapshot list, linked list, writer protocol, log writer faults, table builder finalisation, filter block reader, disk lock).',
        'Round e had no steer beyond the two flavours of the brief (multi-step / two sites; crash, fault, interleaving, unusual input); rounds f and g',
        'pointed each agent at a different group of source files (g: the files the earlier rounds had touched least); rounds h and i again carried an exclusion list - every function used by any earlier change - and three of their agents (C17h1, C02i1, C10i1) reported that they could find no qualifying change outside that list. Several agents of one round arrive at the same change independently',
        '(sequence number published before the memtable insert: C03e2, C06e1, C06e2; filter key de-duplication across blocks: C13e1, C14e1,',
        'C14e2; `First` fragment appended instead of replacing: C12e1, C12e2, C16e1, C08f2) - a hint at which mistakes are the likely ones.',
        '`tools/seed_matrix.py` applies every change to a private copy of /repo and runs the *whole quick check* of its property (and of',
        'neighbouring properties); `seeded/<id>/detect.json` holds the output, `seeded/MATRIX.md` the table. Result: **%d of %d** changes' % (c, n),
        'are reported with exit 1 and a native confirmation by the check of their own property or of a neighbouring property that shares the mechanism (sixteen',
        'are reported only by a neighbour in the stored detect.json files - most of those runs predate the listing of the reporting obligation under the seed\'s own property; the matrix lists who reports what). A change that a check notices only as "inconclusive" (exit 2) is not',
        'counted. The last column names what was built or strengthened because the change was first missed; an empty cell means a',
        'check that already existed reported it.', '',
        '| seed | function changed | whole-property quick check | reporting obligations | built / strengthened because of it |', '|---|---|---|---|---|']
for r in rows: text.append('| ' + ' | '.join(x.replace('|', '/') for x in r) + ' |')
text += ['', 'Hand-made mutations for obligations no sub-agent change exercised are in `seeded/own/` (README there).', '']
p = os.path.join(HERE, 'DESIGN.md'); s = open(p).read()
i = s.index('## 7. Seeded changes'); j = s.index('## 8. False alarms')
open(p, 'w').write(s[:i] + '\n'.join(text) + '\n' + s[j:])
print('%d seeds, %d reported' % (n, c))
