#!/usr/bin/env python3
"""Run every stored seeded change against the checks of the properties it may break and record which check reports it.
usage: tools/seed_matrix.py [seed ids...]   (default: all). Writes seeded/<id>/detect.json and seeded/MATRIX.md."""
import json, os, subprocess, sys, time
HERE = os.path.dirname(os.path.dirname(os.path.abspath(__file__)))
# The experiments run on a private copy of /repo (VERIF_REPO) with its own work directory, so that /repo itself is never
# touched by this tool and normal work on /repo and /verif can go on meanwhile.
COPY = os.environ.get('SEED_REPO_COPY', '/tmp/repo-seed')
WORKDIR = os.path.join(HERE, '.work-seed')
# which checks to try per seed: its own property plus properties sharing the touched mechanism
EXTRA = {'C03a1': ['C07'], 'C07a1': ['C03'], 'C13a1': ['C01', 'C03'], 'C13a2': ['C04'], 'C04a1': ['C13'], 'C06a1': ['C05'], 'C10a2': ['C01'], 'C15a1': ['C12'], 'C16a2': ['C12', 'C02'],
         'C12a1': ['C02'], 'C12a2': ['C02', 'C16'], 'C14a2': ['C13'], 'C09a2': ['C10', 'C07'], 'C10a1': ['C07'], 'C01a2': ['C07'], 'C02a1': ['C16'], 'C16a1': ['C02', 'C01'], 'C01a1': ['C02'],
         'C05a2': ['C02', 'C08'], 'C08a1': ['C02'], 'C11a2': ['C03'], 'C15a2': ['C13', 'C04'],
         'C02b1': ['C13'], 'C02b2': ['C12', 'C16'], 'C07b1': ['C01', 'C03'], 'C07b2': ['C03', 'C01'], 'C13b1': ['C14', 'C01', 'C03'], 'C13b2': ['C04'], 'C10b1': ['C01', 'C07'], 'C10b2': ['C01', 'C07'],
         'C12b2': ['C02', 'C16'], 'C12b1': ['C02', 'C16'],
         'C09c1': ['C04'], 'C09c2': ['C07'], 'C06b1': ['C05', 'C09'], 'C06b2': ['C05'], 'C05c1': ['C03', 'C11'], 'C05c2': ['C15', 'C07', 'C04'],
         'C13c1': ['C14'], 'C13c2': ['C14'], 'C16c1': ['C02'], 'C16c2': ['C02'], 'C14c2': ['C13'],
         'C04d1': ['C13'], 'C13d1': ['C04'], 'C15d1': ['C13'], 'C15d2': ['C04'], 'C10d1': ['C07', 'C03'], 'C10d2': ['C02'], 'C13d2': ['C14'], 'C03d1': ['C07'], 'C03d2': ['C13', 'C05'], 'C12d1': ['C08'], 'C08d2': ['C12', 'C02'],
         'C12d2': [], 'C02d1': ['C16'], 'C02d2': ['C10', 'C07'], 'C08d1': ['C06'], 'C11d1': ['C07'], 'C11d2': ['C02'], 'C14d1': ['C13'], 'C14d2': ['C13'], 'C01d1': ['C10'], 'C01d2': ['C06'], 'C16d1': ['C02'], 'C16d2': ['C02'],
         'C07d1': ['C10'], 'C07d2': ['C15'], 'C17d2': ['C09'], 'C09d1': ['C07'], 'C09d2': ['C03', 'C11'], 'C06d1': ['C04'], 'C06d2': ['C01'], 'C05d1': ['C13', 'C01'], 'C05d2': ['C06'],
         'C01e2': ['C07'], 'C02e2': ['C16', 'C01'], 'C03e2': ['C06', 'C05'], 'C04e2': ['C13'], 'C04e1': ['C13'], 'C03e1': ['C01'], 'C02e1': ['C11'], 'C01e1': ['C02'], 'C06e1': ['C05', 'C03'],
         'C05e1': ['C02', 'C08'], 'C05e2': ['C02', 'C08'], 'C07e1': ['C01', 'C03'], 'C07e2': ['C01', 'C03'], 'C08e1': ['C15', 'C07'], 'C08e2': ['C02', 'C09'],
         'C06e2': ['C05', 'C03'], 'C12e1': ['C02', 'C16'], 'C12e2': ['C02', 'C16'], 'C09e2': ['C08', 'C07'], 'C11e1': ['C02'], 'C10e1': ['C03', 'C07'], 'C11e2': ['C02'], 'C09e1': ['C07'],
         'C10e2': ['C07', 'C03'], 'C14e2': ['C13', 'C03'], 'C14e1': ['C13'], 'C15e2': ['C12', 'C02'], 'C15e1': ['C12', 'C02'], 'C17e1': [], 'C17e2': ['C09'], 'C13e1': ['C14', 'C03'], 'C13e2': ['C04'], 'C16e1': ['C12', 'C02'], 'C16e2': ['C12', 'C02'],
         'C01f1': ['C03', 'C07'], 'C01f2': ['C02', 'C06'], 'C02f1': ['C08', 'C16'], 'C02f2': ['C16', 'C01'], 'C03f1': ['C04'], 'C03f2': ['C11'], 'C04f1': ['C03'], 'C04f2': ['C03'], 'C05f1': ['C06', 'C08'], 'C05f2': ['C13'],
         'C06f1': ['C05', 'C01'], 'C07f1': ['C01', 'C03'], 'C07f2': ['C01'], 'C08f1': ['C02', 'C13'], 'C08f2': ['C12', 'C16'],
         'C06f2': ['C05'], 'C09f1': ['C08', 'C05'], 'C09f2': ['C07'], 'C10f1': ['C07'], 'C10f2': ['C02'], 'C11f1': ['C02'], 'C11f2': ['C03'], 'C12f1': ['C02', 'C16'], 'C12f2': ['C16'], 'C13f1': ['C04'], 'C13f2': ['C01', 'C03'],
         'C14f1': ['C13'], 'C14f2': ['C13'], 'C15f1': ['C13', 'C14'], 'C15f2': ['C06', 'C02'], 'C16f1': ['C02'], 'C16f2': ['C12', 'C02'], 'C17f1': ['C09'], 'C17f2': [],
         'C02g1': ['C06', 'C15'], 'C03g1': ['C11'], 'C04g1': ['C03'], 'C05g1': ['C02', 'C08'], 'C07g1': ['C03'], 'C08g1': ['C15', 'C07'], 'C13g1': ['C04'], 'C01g1': ['C13'],
         'C01g2': ['C05'], 'C02g2': ['C10'], 'C03g2': ['C07'], 'C04g2': ['C13', 'C15'], 'C05g2': ['C03'], 'C06g1': ['C05'], 'C06g2': ['C04', 'C03'], 'C07g2': ['C01'], 'C08g2': ['C13'], 'C09g2': ['C08'],
         'C10g1': ['C07'], 'C10g2': [], 'C11g1': ['C07'], 'C11g2': ['C17'], 'C12g1': ['C02'], 'C12g2': ['C02'], 'C13g2': ['C14'], 'C14g1': ['C13'], 'C14g2': ['C13'], 'C15g1': ['C12'], 'C15g2': ['C02', 'C10'], 'C16g1': ['C12'], 'C16g2': ['C02', 'C01'], 'C17g1': [], 'C17g2': [],
         'C01h1': ['C12'], 'C02h2': ['C08'], 'C03h1': ['C04'], 'C04h2': [], 'C05h1': ['C07', 'C01'], 'C07h1': ['C01'], 'C08h2': [], 'C09g1': [], 'C09h1': ['C15', 'C04'], 'C10h2': ['C02'], 'C11h1': ['C04', 'C03'],
         'C12h1': ['C16'], 'C13h1': ['C04'], 'C14h1': ['C13'], 'C15h2': ['C04', 'C13'], 'C16h2': ['C12'], 'C06h2': ['C05', 'C04'],
         'C08i1': ['C02'], 'C13i2': ['C08'], 'C15i1': ['C13'], 'C11i2': [], 'C04i2': ['C13'], 'C09i2': [],
         'C17c1': [], 'C08c1': ['C02'], 'C08c2': ['C02'], 'C07c1': ['C03'], 'C07c2': ['C01'], 'C02c1': ['C16'], 'C03c1': ['C07'], 'C03c2': ['C01'], 'C15c1': ['C16', 'C02'], 'C15c2': ['C13'],
         'C11c2': ['C07', 'C10'], 'C12c1': ['C02'], 'C12c2': ['C02'], 'C04c1': ['C03'], 'C01c1': ['C07', 'C11'], 'C01c2': ['C06'], 'C10c1': ['C02'], 'C10c2': ['C02']}
def run_worker(wid, ids, claimed, snap):
    copy = '%s-%d' % (COPY, wid); work = '%s-%d' % (WORKDIR, wid)
    subprocess.run(['rm', '-rf', copy]); os.makedirs(copy)
    subprocess.run('git -C /repo archive HEAD | tar -x -C %s && cp /repo/Cargo.lock %s/ && cd %s && git init -q && git add -A && git -c user.email=a@b -c user.name=x commit -qm base' % (copy, copy, copy), shell=True, check=True)
    env = dict(os.environ, VERIF_REPO=copy, VERIF_WORK=work)
    rows = []
    for sid in ids:
        d = os.path.join(HERE, 'seeded', sid)
        meta = json.load(open(os.path.join(d, 'meta.json')))
        props = [meta['property']] + EXTRA.get(sid, [])
        ap = subprocess.run(['git', '-C', copy, 'apply', os.path.join(d, 'patch.diff')], capture_output=True, text=True)
        if ap.returncode != 0:
            rows.append((sid, meta['property'], 'patch no longer applies', '')); continue
        det = {}
        try:
            for p in props:
                if p not in claimed: det[p] = {'exit': None, 'note': 'property not claimed'}; continue
                t0 = time.time()
                r = subprocess.run(['./check', p, '--tier', 'quick', '--no-evidence', '--jobs', '4'], cwd=snap, capture_output=True, text=True, timeout=5400, env=env)
                lines = [l for l in r.stdout.splitlines() if l.startswith(('VIOLATION', '  O', 'INCONCLUSIVE'))]
                det[p] = {'exit': r.returncode, 'seconds': round(time.time() - t0), 'lines': lines[:6]}
        finally:
            subprocess.run(['git', '-C', copy, 'checkout', '--', '.'])
        json.dump({'seed': sid, 'checked_at_repo_head': subprocess.run(['git', '-C', '/repo', 'rev-parse', '--short', 'HEAD'], capture_output=True, text=True).stdout.strip(), 'results': det},
                  open(os.path.join(d, 'detect.json'), 'w'), indent=1)
        print(sid, {p: x.get('exit') for p, x in det.items()}, flush=True)
    subprocess.run(['rm', '-rf', copy])


def table():
    """seeded/MATRIX.md from the detect.json files."""
    rows = []
    for sid in sorted(os.listdir(os.path.join(HERE, 'seeded'))):
        d = os.path.join(HERE, 'seeded', sid)
        if not os.path.exists(os.path.join(d, 'detect.json')): continue
        meta = json.load(open(os.path.join(d, 'meta.json'))); det = json.load(open(os.path.join(d, 'detect.json')))['results']
        caught = [p for p, x in det.items() if x.get('exit') == 1]
        outcome = 'caught by ' + ', '.join(caught) if caught else ('inconclusive (exit 2): ' + ', '.join(p for p, x in det.items() if x.get('exit') == 2) if any(x.get('exit') == 2 for x in det.values()) else 'not caught')
        obs = sorted(set(l.strip().split(':')[0] for p in caught for l in det[p]['lines'] if l.startswith('  O')))
        what = '; '.join(l.strip()[:150] for p in caught[:1] for l in det[p]['lines'] if l.startswith('  O'))[:300]
        rows.append((sid, meta['property'], outcome, ', '.join(obs), what))
    with open(os.path.join(HERE, 'seeded', 'MATRIX.md'), 'w') as f:
        f.write('# Seeded changes vs. checks (quick tier, whole property checks)\n\n| seed | property | outcome | obligations | first report |\n|---|---|---|---|---|\n')
        for r in rows: f.write('| ' + ' | '.join(str(x).replace('|', '/') for x in r) + ' |\n')
    print('%d seeds, %d caught' % (len(rows), len([r for r in rows if r[2].startswith('caught')])))


def main():
    if sys.argv[1:2] == ['--table']: return table()
    par = 1
    args = sys.argv[1:]
    if args[:1] == ['--par']: par = int(args[1]); args = args[2:]
    claimed = [c['property_id'] for c in json.load(open(os.path.join(HERE, 'MANIFEST.json')))['checks']]
    ids = [i for i in (args or sorted(os.listdir(os.path.join(HERE, 'seeded')))) if os.path.isfile(os.path.join(HERE, 'seeded', i, 'meta.json'))]
    # the checks themselves run from a snapshot of /verif, so that work on /verif can go on while the matrix runs
    SNAP = os.environ.get('SEED_VERIF_SNAPSHOT', '/tmp/verif-seed')
    subprocess.run(['rm', '-rf', SNAP]); os.makedirs(SNAP)
    subprocess.run('rsync -a --exclude .git --exclude ".work*" --exclude evidence %s/ %s/' % (HERE, SNAP), shell=True, check=True)
    import concurrent.futures as cf
    with cf.ThreadPoolExecutor(par) as ex:
        list(ex.map(lambda w: run_worker(w, ids[w::par], claimed, SNAP), range(par)))
    table()
main()
