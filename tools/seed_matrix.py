#!/usr/bin/env python3
"""Run every stored seeded change against the checks of the properties it may break and record which check reports it.
usage: tools/seed_matrix.py [seed ids...]   (default: all). Writes seeded/<id>/detect.json and seeded/MATRIX.md."""
import json, os, subprocess, sys, time
HERE = os.path.dirname(os.path.dirname(os.path.abspath(__file__)))
# The experiments run on a private copy of /repo (VERIF_REPO) with its own work directory, so that /repo itself is never
# touched by this tool and normal work on /repo and /verif can go on meanwhile.
COPY = os.environ.get('SEED_REPO_COPY', '/tmp/repo-seed')
WORKDIR = os.path.join(HERE, '.work-seed')
# which checks to try per seed: its own property plus properties sharing the touched mechanism
EXTRA = {'C03a1': ['C07'], 'C07a1': ['C03'], 'C13a1': ['C01', 'C03'], 'C13a2': ['C04'], 'C04a1': ['C13'], 'C06a1': ['C05'], 'C10a2': ['C01'], 'C15a1': ['C12'], 'C16a2': ['C12', 'C02'],
         'C12a1': ['C02'], 'C12a2': ['C02', 'C16'], 'C14a2': ['C13'], 'C09a2': ['C10', 'C07'], 'C10a1': ['C07'], 'C01a2': ['C07'], 'C02a1': ['C16'], 'C16a1': ['C02', 'C01'], 'C01a1': ['C02'],
         'C05a2': ['C02', 'C08'], 'C08a1': ['C02'], 'C11a2': ['C03'], 'C15a2': ['C13', 'C04'],
         'C02b1': ['C13'], 'C02b2': ['C12', 'C16'], 'C07b1': ['C01', 'C03'], 'C07b2': ['C03', 'C01'], 'C13b1': ['C14', 'C01', 'C03'], 'C13b2': ['C04'], 'C10b1': ['C01', 'C07'], 'C10b2': ['C01', 'C07'],
         'C12b2': ['C02', 'C16'], 'C12b1': ['C02', 'C16'],
         'C09c1': ['C04'], 'C09c2': ['C07'], 'C06b1': ['C05', 'C09'], 'C06b2': ['C05'], 'C05c1': ['C03', 'C11'], 'C05c2': ['C15', 'C07', 'C04'],
         'C13c1': ['C14'], 'C13c2': ['C14'], 'C16c1': ['C02'], 'C16c2': ['C02'], 'C14c2': ['C13'],
         'C17c1': [], 'C08c1': ['C02'], 'C08c2': ['C02'], 'C07c1': ['C03'], 'C07c2': ['C01'], 'C02c1': ['C16'], 'C03c1': ['C07'], 'C03c2': ['C01'], 'C15c1': ['C16', 'C02'], 'C15c2': ['C13'],
         'C11c2': ['C07', 'C10'], 'C12c1': ['C02'], 'C12c2': ['C02'], 'C04c1': ['C03'], 'C01c1': ['C07', 'C11'], 'C01c2': ['C06'], 'C10c1': ['C02'], 'C10c2': ['C02']}
def main():
    claimed = [c['property_id'] for c in json.load(open(os.path.join(HERE, 'MANIFEST.json')))['checks']]
    ids = sys.argv[1:] or sorted(os.listdir(os.path.join(HERE, 'seeded')))
    subprocess.run(['rm', '-rf', COPY]); os.makedirs(COPY)
    subprocess.run('git -C /repo archive HEAD | tar -x -C %s && cp /repo/Cargo.lock %s/ && cd %s && git init -q && git add -A && git -c user.email=a@b -c user.name=x commit -qm base' % (COPY, COPY, COPY), shell=True, check=True)
    env = dict(os.environ, VERIF_REPO=COPY, VERIF_WORK=WORKDIR)
    # the checks themselves run from a snapshot of /verif, so that work on /verif can go on while the matrix runs
    SNAP = os.environ.get('SEED_VERIF_SNAPSHOT', '/tmp/verif-seed')
    subprocess.run(['rm', '-rf', SNAP]); os.makedirs(SNAP)
    subprocess.run('rsync -a --exclude .git --exclude ".work*" --exclude evidence %s/ %s/' % (HERE, SNAP), shell=True, check=True)
    rows = []
    for sid in ids:
        d = os.path.join(HERE, 'seeded', sid)
        if not os.path.isdir(d): continue
        meta = json.load(open(os.path.join(d, 'meta.json')))
        props = [meta['property']] + EXTRA.get(sid, [])
        ap = subprocess.run(['git', '-C', COPY, 'apply', os.path.join(d, 'patch.diff')], capture_output=True, text=True)
        if ap.returncode != 0:
            rows.append((sid, meta['property'], 'patch no longer applies', '')); continue
        det = {}
        try:
            for p in props:
                if p not in claimed: det[p] = {'exit': None, 'note': 'property not claimed'}; continue
                t0 = time.time()
                r = subprocess.run(['./check', p, '--tier', 'quick', '--no-evidence'], cwd=SNAP, capture_output=True, text=True, timeout=3600, env=env)
                lines = [l for l in r.stdout.splitlines() if l.startswith(('VIOLATION', '  O', 'INCONCLUSIVE'))]
                det[p] = {'exit': r.returncode, 'seconds': round(time.time() - t0), 'lines': lines[:6]}
        finally:
            subprocess.run(['git', '-C', COPY, 'checkout', '--', '.'])
        json.dump({'seed': sid, 'checked_at_repo_head': subprocess.run(['git', '-C', '/repo', 'rev-parse', '--short', 'HEAD'], capture_output=True, text=True).stdout.strip(), 'results': det},
                  open(os.path.join(d, 'detect.json'), 'w'), indent=1)
        caught = [p for p, x in det.items() if x.get('exit') == 1]
        rows.append((sid, meta['property'], 'caught by ' + ', '.join(caught) if caught else ('inconclusive (exit 2): ' + ', '.join(p for p, x in det.items() if x.get('exit') == 2) if any(x.get('exit') == 2 for x in det.values()) else 'not caught'),
                     '; '.join(l.strip()[:160] for p in caught for l in det[p]['lines'] if l.startswith('  O'))[:400]))
        print(rows[-1], flush=True)
    # merge with existing matrix rows
    path = os.path.join(HERE, 'seeded', 'MATRIX.md')
    old = {}
    if os.path.exists(path):
        for l in open(path):
            if l.startswith('| C'):
                c = [x.strip() for x in l.strip().strip('|').split('|')]; old[c[0]] = c
    for r in rows: old[r[0]] = list(r)
    with open(path, 'w') as f:
        f.write('# Seeded changes vs. checks (quick tier)\n\n| seed | property | outcome | reported by |\n|---|---|---|---|\n')
        for k in sorted(old): f.write('| ' + ' | '.join(str(x).replace('|', '/') for x in old[k]) + ' |\n')
main()
