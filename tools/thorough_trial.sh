#!/bin/bash
# Trial of the thorough tier of every check on private copies of /repo and /verif (no evidence written, /repo untouched).
# usage: tools/thorough_trial.sh [Cxx ...]   -> /tmp/thorough_trial.log
set -u
SNAP=/tmp/verif-thor; COPY=/tmp/repo-thor
rm -rf "$SNAP" "$COPY"; mkdir -p "$SNAP" "$COPY"
rsync -a --exclude .git --exclude ".work*" /verif/ "$SNAP"/
git -C /repo archive HEAD | tar -x -C "$COPY"; cp /repo/Cargo.lock "$COPY"/
props=${@:-$(python3 -c "import json;print(' '.join(c['property_id'] for c in json.load(open('/verif/MANIFEST.json'))['checks']))")}
for p in $props; do
  start=$(date +%s)
  out=$(cd "$SNAP" && VERIF_REPO="$COPY" VERIF_WORK=/verif/.work-thor /usr/bin/time -f "maxrss_kb=%M" timeout 14400 ./check $p --tier thorough --no-evidence 2>&1 | grep -E "^\[C|maxrss|VIOLATION|INCONCLUSIVE|KNOWN" | tail -6 | tr '\n' ' ')
  echo "$p $(( $(date +%s) - start ))s $out"
done
