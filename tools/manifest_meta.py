"""Hand-written part of the manifest: what is claimed per property, and why the others are not."""
import subprocess

def _hook_commits():
    try:
        out = subprocess.run(['git', '-C', '/repo', 'log', '--format=%H %s'], capture_output=True, text=True).stdout.splitlines()
        return [l.split()[0] for l in out if ' verif hooks' in l or l.split(' ', 1)[1].startswith('verif hook')]
    except Exception:
        return []

CLAIMED_IDS = ['C01', 'C07', 'C08', 'C10']

HOOKS = {
    'guard': 'cargo feature `verif` (cfg(feature = "verif"))',
    'enable': 'the harness crate /verif/harness depends on raindb with features=["verif"]; the MIR dump is taken with --features verif',
    'baseline_off_cmd': 'cd /repo && (cargo nextest run --workspace --no-fail-fast --tool-config-file pb:/w/lib/nextest.toml --profile pb --test-threads 8 --offline || cargo test --workspace --no-fail-fast --offline)',
    'source_commits': _hook_commits(),
    'add_only': True,
}

ENGINES = [
    {'name': 'engine-b-mirse', 'path': 'mirse/', 'serves_properties': sorted(CLAIMED_IDS),
     'kind_free_text': 'symbolic executor over rustc MIR text dump of /repo (regenerated per run), z3 decides path feasibility and postconditions, cvc5 cross-checks a sample of final queries, counterexamples replayed natively through harness/src/bin/replay.rs'},
    {'name': 'engine-a-kani', 'path': 'harness/', 'serves_properties': [],
     'kind_free_text': 'Kani 0.68 / CBMC 6.11 proof harnesses over the compiled crate (byte-level units)'},
]

B_NOTE = ('bounded model checking of the real functions (MIR of the current tree); trusted: MIR executor, std summaries, key abstraction; '
          'obligations => property is an informal argument; thread interleavings, histories and whole-database runs are outside the claim')

TECH = 'symbolic execution of rustc MIR + z3 (SMT), cvc5 cross-check, native replay of counterexamples'
CLAIMED = {
    'C01': {'engine': 'engine-b-mirse', 'design_ref': 'DESIGN.md section 4 C01',
            'text': 'solver-decided obligations on the read path below DB::get: binary search over a level (O1.3), files consulted by a lookup and their order (O1.4), Table::get tri-state for every lookup bound (O1.6), manifest snapshot preserves file metadata (O1.7)',
            'note': B_NOTE, 'technique': TECH},
    'C08': {'engine': 'engine-b-mirse', 'design_ref': 'DESIGN.md section 4 C08',
            'text': 'solver-decided error propagation: every combination of failing steps in VersionSet::log_and_apply yields Err and no version install (O8.2)',
            'note': B_NOTE, 'technique': TECH},
    'C10': {'engine': 'engine-b-mirse', 'design_ref': 'DESIGN.md section 4 C10',
            'text': 'solver-decided obligations on file metadata: hull of several files (O7.1), binary search on well-formed levels (O1.3), file comparator is a total order (O10.3)',
            'note': B_NOTE, 'technique': TECH},
    'C07': {'engine': 'engine-b-mirse', 'design_ref': 'DESIGN.md section 4 C07',
            'text': 'solver-decided obligations on the compaction input selection: key range of several files is their hull (O7.1) for every layout within the bound',
            'note': B_NOTE, 'technique': 'symbolic execution of rustc MIR + z3 (SMT), cvc5 cross-check, native replay of counterexamples'},
}

_NOT_YET = 'obligations for this property are designed (DESIGN.md section 4) but not yet registered in this commit'
NOT_APPLICABLE = {pid: _NOT_YET for pid in ['C02', 'C03', 'C04', 'C05', 'C06', 'C09', 'C11', 'C12', 'C13', 'C14', 'C15', 'C16']}
NOT_APPLICABLE['C17'] = 'the mechanism is flock(2) through the fs2 FFI on a real file descriptor plus racing threads; neither engine has a model of flock or of threads, and a contract "lock_file returns anything" decides nothing'

NOTES = 'See DESIGN.md. Exit codes of ./check: 0 held (KNOWN-FINDING lines for recorded defects), 1 VIOLATION, 2 inconclusive (tool limit or non-reproducing counterexample; never reported as held).'
