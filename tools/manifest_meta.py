"""Hand-written part of the manifest: what is claimed per property, and why the others are not."""
import subprocess

def _hook_commits():
    try:
        out = subprocess.run(['git', '-C', '/repo', 'log', '--format=%H %s'], capture_output=True, text=True).stdout.splitlines()
        return [l.split()[0] for l in out if ' verif hooks' in l or l.split(' ', 1)[1].startswith('verif hook')]
    except Exception:
        return []

CLAIMED_IDS = ['C01', 'C02', 'C03', 'C04', 'C05', 'C06', 'C07', 'C08', 'C09', 'C10', 'C11', 'C12', 'C13', 'C14', 'C15', 'C16', 'C17']

HOOKS = {
    'guard': 'cargo feature `verif` (cfg(feature = "verif"))',
    'enable': 'the harness crate /verif/harness depends on raindb with features=["verif"]; the MIR dump is taken with --features verif',
    'baseline_off_cmd': 'cd /repo && (cargo nextest run --workspace --no-fail-fast --tool-config-file pb:/w/lib/nextest.toml --profile pb --test-threads 8 --offline || cargo test --workspace --no-fail-fast --offline)',
    'source_commits': _hook_commits(),
    'add_only': True,
}

ENGINES = [
    {'name': 'engine-b-mirse', 'path': 'mirse/', 'serves_properties': sorted(CLAIMED_IDS),
     'kind_free_text': 'symbolic executor over rustc MIR text dump of /repo (regenerated per run), z3 decides path feasibility and postconditions, cvc5 cross-checks a sample of final queries, counterexamples replayed natively through harness/src/bin/replay.rs'},
    {'name': 'engine-a-kani', 'path': 'harness/src/proofs.rs + kani/runner.py', 'serves_properties': ['C01', 'C12', 'C13', 'C14', 'C15'],
     'kind_free_text': 'Kani 0.68 / CBMC 6.11 proof harnesses over the compiled crate (byte-level units)'},
]

B_NOTE = ('bounded model checking of the real functions (MIR of the current tree); trusted: MIR executor, std summaries, key abstraction; '
          'obligations => property is an informal argument; thread interleavings, histories and whole-database runs are outside the claim')

TECH = 'symbolic execution of rustc MIR + z3 (SMT), cvc5 cross-check, native replay of counterexamples'
CLAIMED = {
    'C01': {'engine': 'engine-b-mirse', 'design_ref': 'DESIGN.md section 4 C01',
            'text': 'solver-decided obligations on the read path below DB::get and on what a reopen restores: InternalKey order (O1.1, Kani), binary search over a level (O1.3), files consulted by a lookup and their order (O1.4), Table::get tri-state for every lookup bound (O1.6), manifest snapshot preserves file metadata (O1.7), Version::get answers from the first consulted table that knows the key and never skips a read error (O1.5), compaction inputs and flush placement never leave an older version above a newer one (O7.2, O7.4c, O7.7, O7.8), WAL replay applies every batch and restores the last sequence of the newest batch / the maximum over all replayed logs (O2.5a, O2.5b)',
            'note': B_NOTE, 'technique': TECH},
    'C08': {'engine': 'engine-b-mirse', 'design_ref': 'DESIGN.md section 4 C08',
            'text': 'error propagation for every combination of failing steps: VersionSet::log_and_apply (O8.2), the leader of DB::apply_changes incl. failed-state recording and write-ahead order (O8.3), DB::set_current_file (create / write / rename failures reported, CURRENT only switched by rename; O8.4), LogWriter::new (failed open or size query reported; O12.5), memtable flush (O2.4)',
            'note': B_NOTE, 'technique': TECH},
    'C10': {'engine': 'engine-b-mirse', 'design_ref': 'DESIGN.md section 4 C10',
            'text': 'file metadata and level shape: hull of several files (O7.1, known finding D4), binary search on well-formed levels (O1.3), file comparator is a total order (O10.3), version edits keep levels >= 1 sorted and disjoint and equal base - deleted + added (O10.5), a flush records the first and last written key as the bounds of its table (O10.6), the seek-compaction candidate is recorded with the level it lives in (O10.7), manifest snapshot preserves (level, number, size, smallest..largest) (O1.7)',
            'note': B_NOTE, 'technique': TECH},
    'C02': {'engine': 'engine-b-mirse', 'design_ref': 'DESIGN.md section 4 C02',
            'text': 'log level and orchestration steps: for every writer-producible log of <= 3 (thorough: 4) fragments cut at ANY byte the reader returns exactly the complete records before the cut, then end-of-file (O12.3 = O2.1); a flush drops the immutable memtable / removes obsolete files only after table write and manifest edit succeeded (O2.4); open replays exactly the WALs >= the manifest WAL number in ascending order, treats only the newest as reusable, restores the maximal sequence (O2.5b); one WAL contributes every batch and its true last sequence (O2.5a); VersionSet::recover restores the last recorded WAL number / sequence / file counter from a manifest of <= 2 (thorough: 3) records and gives a manifest that is not reused a number different from the one CURRENT names (O2.6); a log writer reopened on an existing file continues at the block position where the file ends (O12.5); a new manifest is created empty, filled with snapshot and edit, and only then made CURRENT (O2.7); an existing database is never initialised again and an unreadable CURRENT is an error (O2.8); CURRENT is switched by write-temp-then-rename and failures are reported (O8.4); a table build starts from an empty file even if a leftover with its number exists (O14.4) and writes every entry (O10.6); DB::open removes obsolete files only after recovery and the manifest edit (O11.2)',
            'note': B_NOTE + '; crash points are not enumerated: the obligations are the per-step facts the crash argument rests on', 'technique': TECH},
    'C12': {'engine': 'engine-b-mirse', 'design_ref': 'DESIGN.md section 4 C12',
            'text': 'writer fragmentation geometry for every start offset and record length <= 3 blocks (O12.1); a reopened writer starts at file size mod 32768 for every 64-bit size (O12.5); reader reassembly over abstract block-accurate fragment streams: intact or cut at any byte (O12.3), abandoned record prefix + reopened writer (O12.4)',
            'note': B_NOTE + '; byte contents (payload fidelity, CRC) are not represented in Engine B', 'technique': TECH},
    'C15': {'engine': 'engine-b-mirse', 'design_ref': 'DESIGN.md section 4 C15',
            'text': 'log reader under one fragment with a failing checksum (any position, symbolic lengths): exactly the damaged record is dropped, every other record is returned, alignment is kept (O15.5); a seek into an unreadable table block reports an error every time (O4.3); Version::get reports the read error of the first table that knows the key instead of answering from an older table (O1.5); a compaction fails when a level-0 input cannot be opened (O15.6); a forward scan that runs into an unreadable block must report an error (O15.7) - known finding D12; Kani: one-record log with one altered byte never yields a foreign record (O15.2), parsers never panic on arbitrary bytes (O15.3), crc masking is a bijection (O15.1)',
            'note': B_NOTE + '; corruption is modelled as "BlockRecord::try_from fails for that fragment" with an intact length field; table files and manifests are not covered', 'technique': TECH},
    'C16': {'engine': 'engine-b-mirse', 'design_ref': 'DESIGN.md section 4 C16',
            'text': 'log level and recovery steps: a torn tail is end-of-file and costs only the torn record (O12.3 with the cut inside the last fragment); open restores the maximal sequence over all replayed WALs even if the newest is empty or torn, and reuses only the newest WAL (O2.5b); records appended after a torn tail (O16.2) - known finding D1c; a reopened writer continues at the block position where the file ends (O12.5); a manifest is reused only when reuse is enabled and it is small enough (O2.6)',
            'note': B_NOTE + '; the effect of appending to a manifest with a torn tail is the log-level finding D1c', 'technique': TECH},
    'C03': {'engine': 'engine-b-mirse', 'design_ref': 'DESIGN.md section 4 C03',
            'text': 'mechanisms behind frozen snapshots: the per-level binary search uses full internal keys (O1.3); Version::get answers from the first table that knows the key (O1.5); a scan gets an iterator for every level incl. the last (O4.5); Table::get honours the sequence bound and keeps older files searchable (O1.6); a table compaction is bounded by the OLDEST live snapshot (O3.2a); the merge keep/drop rule preserves what every snapshot >= that bound sees (O3.2b); the live-file set covers every level of every live version (O3.3); the database iterator shows exactly the pairs visible at its sequence number (O4.2)',
            'note': B_NOTE + '; pinning of files by live versions (obsolete-file deletion) and reader/compaction interleavings are not covered', 'technique': TECH},
    'C04': {'engine': 'engine-b-mirse', 'design_ref': 'DESIGN.md section 4 C04',
            'text': 'all three iterator layers against reference cursors, for every cursor pattern of length <= 4 (quick: 17 patterns incl. all direction reversals, seeks and absolute repositioning; thorough: all 750): MergingIterator with CachingIterator inlined = cursor over the merged array (O4.1); DatabaseIterator = cursor over the pairs visible at its sequence number, every grouping of <= 3 internal entries into user keys (O4.2); TwoLevelIterator = cursor over the concatenated data blocks, and a seek into an unreadable block errs every time (O4.3); DB::new_iterator merges exactly the active memtable, the immutable memtable if any and the current version, at the snapshot / last published sequence (O4.4); Version::get_representative_iterators covers all seven levels (O4.5)',
            'note': B_NOTE + '; quick: 17 cursor patterns; block-level iterators are by contract', 'technique': TECH},
    'C05': {'engine': 'engine-b-mirse', 'design_ref': 'DESIGN.md section 4 C05',
            'text': 'sequential mechanism only: DB::get / new_iterator read memtable pointer, immutable memtable, current version and visible sequence while the database mutex is held and look up at the published sequence (O5.1); a group commit merges exactly the queue prefix it acknowledges (O5.2); block-cache ids are drawn in one critical section (O5.3, environment step at every lock acquisition instead of interleavings); the memtable is never rotated over an immutable memtable that still waits for its flush (O9.3); an iterator created during a flush includes the immutable memtable (O4.4); a write publishes its sequence under the mutex after the memtable insert (O6.1); a flush keeps the immutable memtable until the new version is installed (O2.4)',
            'note': B_NOTE + '; this checks the documented capture-under-mutex mechanism, NOT linearizability: thread interleavings are not explored; a violation is replayed with a forced schedule through cfg(verif) scheduling points', 'technique': TECH + '; lock-state monitor over MIR paths'},
    'C06': {'engine': 'engine-b-mirse', 'design_ref': 'DESIGN.md section 4 C06',
            'text': 'sequential mechanism only: in DB::apply_changes the batch starts at prev+1, the WAL append precedes the memtable insert, and prev+len is published with the mutex held and only after the unlocked WAL+memtable section has returned (O6.1); reads look up at the published sequence (O5.1)',
            'note': B_NOTE + '; reader interleavings are not explored; group commits of several writers are outside the bound (single writer at the head of the queue)', 'technique': TECH + '; event-order monitor over MIR paths'},
    'C09': {'engine': 'engine-b-mirse', 'design_ref': 'DESIGN.md section 4 C09',
            'text': 'self-deadlock freedom of get_descriptor (3 descriptors), get_snapshot, release_snapshot, compact_range, get, new_iterator (O9.1); the background task clears its scheduled flag and wakes ALL waiters on every path (O9.2); a writer waiting in make_room_for_write re-evaluates its conditions after every wake-up and returns once the background work is done (O9.3); coordinate_compaction never panics and leaves a manual request installed while it ran pending (O9.4); applying a well-formed version edit never panics (the worker thread dies on such a panic) (O10.5)',
            'note': B_NOTE + '; data-insensitive exploration (paths are merged by lock state per call context); queue hand-off, condition-variable liveness and every other interleaving-dependent hang are outside the claim', 'technique': TECH + '; lock-state monitor over MIR paths, native watchdog replay'},
    'C13': {'engine': 'engine-b-mirse + engine-a-kani', 'design_ref': 'DESIGN.md section 4 C13',
            'text': 'below the whole-file level: Table::get tri-state for every lookup bound over abstract block cursors (O1.6); two-level table iterator = cursor over the concatenated data blocks incl. an unreadable block (O4.3); block handles point at the written bytes (O14.3), also when a leftover file with the table number exists (O14.4); every entry reaches the data block and the filter block, index entries carry the flushed handle (O14.5); byte-level (Kani): separators / successors keep lower <= sep < upper and satisfy the index-key contract assumed by O1.6 (O13.1), InternalKey order (O1.1)',
            'note': B_NOTE + '; Engine A: Kani/CBMC on the compiled crate, shapes (key lengths 1-3) are harness constants, alloc::fmt::format stubbed; block encoding / prefix compression / snappy / footer are not covered (codec round trips exceed the memory budget)', 'technique': TECH + '; Kani/CBMC bounded model checking for byte-level units'},
    'C14': {'engine': 'engine-a-kani + engine-b-mirse', 'design_ref': 'DESIGN.md section 4 C14',
            'text': 'Kani: a Bloom filter built from two keys (lengths 0-5, symbolic bytes, several bits_per_key) answers true for both, also when read by a policy with another bits_per_key (O14.1); Engine B: filter block builder and reader map every block offset to the same filter index (O14.2); the offset TableBuilder announces to the filter builder after a flush is exactly the next data block handle offset that Table::get later passes to the filter (O14.3); TableBuilder::add_entry adds the user key of EVERY entry to the filter, after the full block was flushed (O14.5); FilterBlockBuilder hands every added key (empty key, equal neighbours) to the filter policy (O14.6)',
            'note': 'Kani: key counts, key lengths and bits_per_key are harness constants, alloc::fmt::format stubbed; ' + B_NOTE + '; byte contents of filter blocks (serialisation of the offset array) are not covered', 'technique': 'Kani/CBMC bounded model checking of the compiled code with concrete-playback replay; ' + TECH},
    'C11': {'engine': 'engine-b-mirse', 'design_ref': 'DESIGN.md section 4 C11',
            'text': 'DB::remove_obsolete_files deletes exactly the WALs older than the version set\'s current WAL (except the one being compacted), tables / temp files neither live nor in use, manifests older than the current one, nothing after a background error, and only inside the unlocked section (O11.1, all numbers symbolic); VersionSet::get_live_files covers every level of every live version (O3.3); DB::open removes obsolete files exactly once on every successful open (O11.2); the outputs of a running compaction stay in the protected set (O11.3)',
            'note': B_NOTE + '; directory contents are abstract listings (1-2 files per directory); reader / deletion interleavings and crash images are not explored', 'technique': TECH},
    'C07': {'engine': 'engine-b-mirse', 'design_ref': 'DESIGN.md section 4 C07',
            'text': 'compaction input selection, keep/drop and version edit: hull of several files (O7.1, known finding D4), overlapping inputs incl. level-0 range expansion and its termination (O7.2), boundary files (O7.3), overlap test (O7.4a), base-level test for tombstones (O7.4b), memtable output level (O7.4c), final inputs: boundary-closed at both levels, every overlapping parent file included (O7.5, found and fixed D11), initial inputs of size- and seek-triggered compactions (O7.7) and of manual compactions (O7.8), a compaction reads all its inputs or fails (O15.6), compaction bounded by the oldest snapshot and keep/drop rule (O3.2a/b), version edit = base - deleted + added without panics (O10.5)',
            'note': B_NOTE, 'technique': 'symbolic execution of rustc MIR + z3 (SMT), cvc5 cross-check, native replay of counterexamples'},
}

CLAIMED['C17'] = {'engine': 'engine-b-mirse', 'design_ref': 'DESIGN.md section 4 C17',
                  'text': 'sequential mechanism only, flock itself by contract (lock_file fails while another handle holds the lock): DB::open requests the database lock before recovery, log creation, manifest edit and file removal, and fails without any of them when the lock is held (O17.1); destroy_database removes nothing before it holds the lock, refuses when it is held, removes the lock file last (O17.2); dropping a database announces shutdown, waits for its background work and only then gives up the lock (O17.3)',
                  'note': B_NOTE + '; the flock(2) semantics of the fs2 FFI call and every race between threads or handles (racing opens after a close, open during close) are OUTSIDE the claim: the check decides the order of operations inside open / destroy_database / drop, nothing else; a violation is replayed on the disk file system with a second open and a destroy against a live instance', 'technique': TECH + '; event-order monitor over MIR paths'}

_NOT_YET = 'obligations for this property are designed (DESIGN.md section 4) but not yet registered in this commit'
NOT_APPLICABLE = {pid: _NOT_YET for pid in []}

NOTES = 'See DESIGN.md. Exit codes of ./check: 0 held (KNOWN-FINDING lines for recorded defects), 1 VIOLATION, 2 inconclusive (tool limit or non-reproducing counterexample; never reported as held).'
