"""Hand-written part of the manifest: what is claimed per property, and why the others are not."""
import subprocess

def _hook_commits():
    try:
        out = subprocess.run(['git', '-C', '/repo', 'log', '--format=%H %s'], capture_output=True, text=True).stdout.splitlines()
        return [l.split()[0] for l in out if ' verif hooks' in l or l.split(' ', 1)[1].startswith('verif hook')]
    except Exception:
        return []

CLAIMED_IDS = ['C01', 'C02', 'C03', 'C04', 'C05', 'C06', 'C07', 'C08', 'C09', 'C10', 'C11', 'C12', 'C13', 'C14', 'C15', 'C16']

HOOKS = {
    'guard': 'cargo feature `verif` (cfg(feature = "verif"))',
    'enable': 'the harness crate /verif/harness depends on raindb with features=["verif"]; the MIR dump is taken with --features verif',
    'baseline_off_cmd': 'cd /repo && (cargo nextest run --workspace --no-fail-fast --tool-config-file pb:/w/lib/nextest.toml --profile pb --test-threads 8 --offline || cargo test --workspace --no-fail-fast --offline)',
    'source_commits': _hook_commits(),
    'add_only': True,
}

ENGINES = [
    {'name': 'engine-b-mirse', 'path': 'mirse/', 'serves_properties': sorted(CLAIMED_IDS),
     'kind_free_text': 'symbolic executor over rustc MIR text dump of /repo (regenerated per run), z3 decides path feasibility and postconditions, cvc5 cross-checks a sample of final queries, counterexamples replayed natively through harness/src/bin/replay.rs'},
    {'name': 'engine-a-kani', 'path': 'harness/src/proofs.rs + kani/runner.py', 'serves_properties': ['C01', 'C12', 'C13', 'C14', 'C15'],
     'kind_free_text': 'Kani 0.68 / CBMC 6.11 proof harnesses over the compiled crate (byte-level units)'},
]

B_NOTE = ('bounded model checking of the real functions (MIR of the current tree); trusted: MIR executor, std summaries, key abstraction; '
          'obligations => property is an informal argument; thread interleavings, histories and whole-database runs are outside the claim')

TECH = 'symbolic execution of rustc MIR + z3 (SMT), cvc5 cross-check, native replay of counterexamples'
CLAIMED = {
    'C01': {'engine': 'engine-b-mirse', 'design_ref': 'DESIGN.md section 4 C01',
            'text': 'solver-decided obligations on the read path below DB::get: binary search over a level (O1.3), files consulted by a lookup and their order (O1.4), Table::get tri-state for every lookup bound (O1.6), manifest snapshot preserves file metadata (O1.7)',
            'note': B_NOTE, 'technique': TECH},
    'C08': {'engine': 'engine-b-mirse', 'design_ref': 'DESIGN.md section 4 C08',
            'text': 'solver-decided error propagation: every combination of failing steps in VersionSet::log_and_apply yields Err and no version install (O8.2)',
            'note': B_NOTE, 'technique': TECH},
    'C10': {'engine': 'engine-b-mirse', 'design_ref': 'DESIGN.md section 4 C10',
            'text': 'solver-decided obligations on file metadata: hull of several files (O7.1), binary search on well-formed levels (O1.3), file comparator is a total order (O10.3)',
            'note': B_NOTE, 'technique': TECH},
    'C02': {'engine': 'engine-b-mirse', 'design_ref': 'DESIGN.md section 4 C02',
            'text': 'log-level part of crash safety only: for every writer-producible log of <= 3 (thorough: 4) fragments with symbolic lengths, cut at ANY byte (symbolic), the reader returns exactly the complete records before the cut, in order, then end-of-file (O12.3 = O2.1)',
            'note': B_NOTE + '; recovery orchestration (DB::recover*), manifest/CURRENT switching and flush ordering are not covered by this check', 'technique': TECH},
    'C12': {'engine': 'engine-b-mirse', 'design_ref': 'DESIGN.md section 4 C12',
            'text': 'writer fragmentation geometry for every start offset and record length <= 3 blocks (O12.1); reader reassembly over abstract block-accurate fragment streams: intact or cut at any byte (O12.3), abandoned record prefix + reopened writer (O12.4)',
            'note': B_NOTE + '; byte contents (payload fidelity, CRC) are not represented in Engine B', 'technique': TECH},
    'C15': {'engine': 'engine-b-mirse', 'design_ref': 'DESIGN.md section 4 C15',
            'text': 'log reader under one fragment with a failing checksum (any position, symbolic lengths): exactly the damaged record is dropped, every other record is returned, alignment is kept (O15.5); a seek into an unreadable table block reports an error every time (O4.3); Kani: one-record log with one altered byte never yields a foreign record (O15.2), parsers never panic on arbitrary bytes (O15.3), crc masking is a bijection (O15.1)',
            'note': B_NOTE + '; corruption is modelled as "BlockRecord::try_from fails for that fragment" with an intact length field; table files and manifests are not covered', 'technique': TECH},
    'C16': {'engine': 'engine-b-mirse', 'design_ref': 'DESIGN.md section 4 C16',
            'text': 'log level: a torn tail is end-of-file and costs only the torn record (O12.3 with the cut inside the last fragment); records appended after a torn tail (O16.2) - known finding D1c',
            'note': B_NOTE + '; DB::recover_wal_records and manifest reuse are not encoded', 'technique': TECH},
    'C03': {'engine': 'engine-b-mirse', 'design_ref': 'DESIGN.md section 4 C03',
            'text': 'solver-decided mechanisms behind frozen snapshots: Table::get honours the sequence bound and keeps older files searchable (O1.6 = O3.1); a table compaction is bounded by the OLDEST live snapshot (O3.2a); the merge keep/drop rule preserves what every snapshot >= that bound sees (O3.2b)',
            'note': B_NOTE + '; pinning of files by live versions (obsolete-file deletion) and reader/compaction interleavings are not covered', 'technique': TECH},
    'C04': {'engine': 'engine-b-mirse', 'design_ref': 'DESIGN.md section 4 C04',
            'text': 'k-way merge layer only: MergingIterator (with CachingIterator inlined) equals the cursor over the merged sorted array for every interleaving of <= 4 entries in <= 3 children and every cursor pattern of length <= 4 incl. all direction reversals and seeks (O4.1)',
            'note': B_NOTE + '; the collapse of internal entries to user-visible ones (DatabaseIterator) and block/table level iterators are not covered by this check', 'technique': TECH},
    'C05': {'engine': 'engine-b-mirse', 'design_ref': 'DESIGN.md section 4 C05',
            'text': 'sequential mechanism only: on every path of DB::get and DB::new_iterator the memtable pointer, the immutable memtable, the current version and the visible sequence are read while the database mutex is held (O5.1); a write publishes its sequence under the mutex after the memtable insert (O6.1)',
            'note': B_NOTE + '; this checks the documented capture-under-mutex mechanism, NOT linearizability: thread interleavings are not explored; a violation is replayed with a forced schedule through cfg(verif) scheduling points', 'technique': TECH + '; lock-state monitor over MIR paths'},
    'C06': {'engine': 'engine-b-mirse', 'design_ref': 'DESIGN.md section 4 C06',
            'text': 'sequential mechanism only: in DB::apply_changes the batch starts at prev+1, the WAL append precedes the memtable insert, and prev+len is published with the mutex held and only after the unlocked WAL+memtable section has returned (O6.1), for all prev / batch lengths',
            'note': B_NOTE + '; reader interleavings are not explored; group commits of several writers are outside the bound (single writer at the head of the queue)', 'technique': TECH + '; event-order monitor over MIR paths'},
    'C09': {'engine': 'engine-b-mirse', 'design_ref': 'DESIGN.md section 4 C09',
            'text': 'self-deadlock freedom only: on no path of get_descriptor (all three descriptors), get_snapshot, release_snapshot, compact_range (incl. the forced memtable / level compaction helpers), get, new_iterator is the non-reentrant database mutex locked while that path already holds it (O9.1)',
            'note': B_NOTE + '; data-insensitive exploration (paths are merged by lock state per call context); queue hand-off, condition-variable liveness and every other interleaving-dependent hang are outside the claim', 'technique': TECH + '; lock-state monitor over MIR paths, native watchdog replay'},
    'C13': {'engine': 'engine-b-mirse + engine-a-kani', 'design_ref': 'DESIGN.md section 4 C13',
            'text': 'below the whole-file level: Table::get tri-state for every lookup bound over abstract block cursors (O1.6); two-level table iterator = cursor over the concatenated data blocks for every cursor pattern of length <= 4, incl. an unreadable block (O4.3); byte-level (Kani): separators / successors keep lower <= sep < upper and satisfy the index-key contract assumed by O1.6 (O13.1), InternalKey order (O1.1)',
            'note': B_NOTE + '; Engine A: Kani/CBMC on the compiled crate, shapes (key lengths 1-3) are harness constants, alloc::fmt::format stubbed; block encoding / prefix compression / snappy / footer are not covered (codec round trips exceed the memory budget)', 'technique': TECH + '; Kani/CBMC bounded model checking for byte-level units'},
    'C14': {'engine': 'engine-a-kani', 'design_ref': 'DESIGN.md section 4 C14',
            'text': 'Kani/CBMC: a Bloom filter built from two keys (lengths 0-5, symbolic bytes, bits_per_key in {1, 5, 9, 10, 43, 64}) answers true for both, also when read by a policy configured with another bits_per_key (O14.1)',
            'note': 'bounded model checking of the compiled BloomFilterPolicy; key counts, key lengths and bits_per_key are harness constants; alloc::fmt::format stubbed; the filter-block index mapping (which filter covers which data block) is not covered by this check', 'technique': 'Kani/CBMC bounded model checking of the compiled code, concrete-playback replay of counterexamples'},
    'C11': {'engine': 'engine-b-mirse', 'design_ref': 'DESIGN.md section 4 C11',
            'text': 'DB::remove_obsolete_files deletes exactly the WALs older than the version set\'s current WAL (except the one being compacted), tables / temp files neither live nor in use, manifests older than the current one, nothing after a background error, and only inside the unlocked section (O11.1, all numbers symbolic); VersionSet::get_live_files covers every level of every live version (O3.3)',
            'note': B_NOTE + '; directory contents are abstract listings (1-2 files per directory); reader / deletion interleavings and crash images are not explored', 'technique': TECH},
    'C07': {'engine': 'engine-b-mirse', 'design_ref': 'DESIGN.md section 4 C07',
            'text': 'solver-decided obligations on compaction input selection: hull of several files (O7.1, known finding D4), overlapping inputs incl. level-0 range expansion and its termination (O7.2), boundary files (O7.3), overlap test (O7.4a), base-level test for tombstones (O7.4b), memtable output level (O7.4c)',
            'note': B_NOTE, 'technique': 'symbolic execution of rustc MIR + z3 (SMT), cvc5 cross-check, native replay of counterexamples'},
}

_NOT_YET = 'obligations for this property are designed (DESIGN.md section 4) but not yet registered in this commit'
NOT_APPLICABLE = {pid: _NOT_YET for pid in []}
NOT_APPLICABLE['C17'] = 'the mechanism is flock(2) through the fs2 FFI on a real file descriptor plus racing threads; neither engine has a model of flock or of threads, and a contract "lock_file returns anything" decides nothing'

NOTES = 'See DESIGN.md. Exit codes of ./check: 0 held (KNOWN-FINDING lines for recorded defects), 1 VIOLATION, 2 inconclusive (tool limit or non-reproducing counterexample; never reported as held).'
