#!/bin/sh
# usage: tools/try_seed.sh <patch.diff> <Cxx> [more check args]  -- applies a seeded change to /repo, runs the check, reverts.
set -u
patch="$1"; shift
cd /verif
if ! git -C /repo diff --quiet; then echo "/repo has local changes; refusing"; exit 3; fi
git -C /repo apply "$patch" || { echo "patch does not apply"; exit 3; }
./check "$@"; rc=$?
git -C /repo checkout -- .
echo "check exit=$rc"
exit $rc
