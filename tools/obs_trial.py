#!/usr/bin/env python3
"""Every obligation once, at one tier, from a snapshot of /verif against a copy of /repo (no evidence written).
usage: tools/obs_trial.py <quick|thorough> [parallel=4] [env K=V ...] -> /tmp/obs_<tier>.log (completion order)"""
import json, os, subprocess, sys, time, concurrent.futures as cf
HERE = os.path.dirname(os.path.dirname(os.path.abspath(__file__)))
tier = sys.argv[1]; par = int(sys.argv[2]) if len(sys.argv) > 2 else 4
extra = dict(a.split('=', 1) for a in sys.argv[3:])
SNAP, COPY = '/tmp/verif-obs-' + tier, '/tmp/repo-obs-' + tier
subprocess.run(['rm', '-rf', SNAP, COPY]); os.makedirs(SNAP); os.makedirs(COPY)
subprocess.run('rsync -a --exclude .git --exclude ".work*" %s/ %s/' % (HERE, SNAP), shell=True, check=True)
subprocess.run('git -C /repo archive HEAD | tar -x -C %s && cp /repo/Cargo.lock %s/' % (COPY, COPY), shell=True, check=True)
sys.path.insert(0, SNAP)
from mirse import registry
todo = {}
for p, d in registry.PROPERTIES.items():
    for o in d['obligations']: todo.setdefault(o, p)
env = dict(os.environ, VERIF_REPO=COPY, VERIF_WORK=os.path.join(HERE, '.work-obs-' + tier), **extra)
subprocess.run(['./check', 'C06', '--only', 'O6.1', '--tier', 'quick', '--no-evidence'], cwd=SNAP, env=env, capture_output=True)   # warm up: replay binary, MIR


def run(item):
    o, p = item; t0 = time.time()
    r = subprocess.run(['timeout', '7200', './check', p, '--only', o, '--tier', tier, '--no-evidence', '--jobs', '4'], cwd=SNAP, env=env, capture_output=True, text=True)
    lines = [l for l in (r.stdout + r.stderr).splitlines() if l.startswith(('VIOLATION', 'INCONCLUSIVE', 'KNOWN', '  O'))]
    return '%s (%s) %ds rc=%d %s' % (o, p, time.time() - t0, r.returncode, ' | '.join(l[:300] for l in lines[:3]))


with cf.ThreadPoolExecutor(par) as ex, open('/tmp/obs_%s.log' % tier, 'w') as f:
    futs = [ex.submit(run, it) for it in sorted(todo.items())]
    for fu in cf.as_completed(futs):
        f.write(fu.result() + '\n'); f.flush()
    f.write('DONE\n')
