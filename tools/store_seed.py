#!/usr/bin/env python3
"""usage: tools/store_seed.py <dir with patch.diff demo.diff meta.json verify.json> -- stores a confirmed seeded change under /verif/seeded/<id>/"""
import json, os, shutil, sys
src = os.path.abspath(sys.argv[1]); sid = os.path.basename(src)
v = json.load(open(os.path.join(src, 'verify.json')))
if v.get('verdict') != 'confirmed': sys.exit('not confirmed: %s' % v)
m = json.load(open(os.path.join(src, 'meta.json')))
m['id'] = sid; m.setdefault('property', sid[:3])
m['origin'] = 'written by an independent sub-agent that saw only the property text and a scratch worktree of /repo'
m['what_i_ran'] = {'script': 'tools/verify_seed.sh (scratch worktree under /tmp, removed afterwards)', 'repo_head': v.get('head'),
                   'demo_without_change_exit': v.get('demo_without_change_exit'), 'demo_with_change_exit': v.get('demo_with_change_exit'),
                   'existing_suite_non_flaky_failures_with_change': v.get('suite_non_flaky_failures'), 'verdict': v.get('verdict')}
dst = os.path.join(os.path.dirname(os.path.dirname(os.path.abspath(__file__))), 'seeded', sid); os.makedirs(dst, exist_ok=True)
for f in ('patch.diff', 'demo.diff'): shutil.copy(os.path.join(src, f), os.path.join(dst, f))
json.dump(m, open(os.path.join(dst, 'meta.json'), 'w'), indent=1)
print('stored', dst)
