#!/bin/bash
# usage: tools/try_seed_copy.sh <seed id> <check args...>  -- runs a check against a private copy of /repo with the seeded change applied (/repo is untouched)
S=$1; shift
P=/verif/seeded/$S/patch.diff; if [ -f "$S" ]; then P=$(readlink -f "$S"); S=$(basename "$S" .diff); fi
C=/tmp/repo-try-$S; rm -rf $C; mkdir -p $C
(cd /repo && git archive HEAD | tar -x -C $C && cp Cargo.lock $C/)
(cd $C && git init -q && git add -A && git -c user.email=a@b -c user.name=x commit -qm base && git apply $P) || { echo "patch does not apply"; exit 3; }
cd /verif; VERIF_REPO=$C VERIF_WORK=/verif/.work-try-$S ./check "$@" --no-evidence; rc=$?
rm -rf $C /verif/.work-try-$S
echo "exit=$rc"
