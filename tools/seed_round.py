#!/usr/bin/env python3
"""Prepare a round of independent seeded changes.
usage: tools/seed_round.py <round letter> [property ids...]
For every property two tasks <Cxx><round>1 / <Cxx><round>2 are prepared under /tmp/seedround/<id>/: a scratch git worktree of
/repo (wt/), an output directory (out/) and TASK.md holding ONLY the property's title and statement plus the output format.
Nothing from /verif is given to the sub-agent."""
import json, os, subprocess, sys
HERE = os.path.dirname(os.path.dirname(os.path.abspath(__file__)))
rnd = sys.argv[1]; want = sys.argv[2:]
FLAVOUR = {
    '1': 'a multi-step sequence of operations, or two cooperating code sites that each look fine on their own',
    '2': 'a crash or I/O fault at a particular point, a particular thread interleaving, or an unusual input / configuration (sizes, boundary values, empty or extreme keys and values)',
}
FOCUS = {
 'C01': ('src/versioning/version.rs (Version::get, get_overlapping_files), src/table_cache.rs', 'src/memtable.rs, src/key.rs, src/batch.rs'),
 'C02': ('src/versioning/version_set.rs (recover, log_and_apply) and DB::set_current_file', 'the open / recover path of src/db.rs, src/file_names.rs'),
 'C03': ('src/snapshots.rs, src/iterator.rs', 'src/compaction/state.rs, src/versioning/version_set.rs (live files, release_version)'),
 'C04': ('src/versioning/file_iterators.rs', 'src/iterator.rs, src/tables/block.rs, src/memtable.rs'),
 'C05': ('src/writers.rs and the writer queue / group commit in src/db.rs', 'src/utils/cache.rs, src/table_cache.rs, src/utils/linked_list.rs'),
 'C06': ('src/batch.rs, src/memtable.rs', 'build_group_commit_batch / make_room_for_write in src/db.rs, src/iterator.rs'),
 'C07': ('src/compaction/manifest.rs', 'src/versioning/version_builder.rs, src/versioning/version.rs'),
 'C08': ('src/tables/table_builder.rs, src/compaction/state.rs', 'src/versioning/version_set.rs, src/logs.rs'),
 'C09': ('waits, condition variables and Drop in src/db.rs', 'src/compaction/worker.rs, src/writers.rs'),
 'C10': ('src/versioning/version_builder.rs, src/versioning/file_metadata.rs', 'build_table_from_iterator / descriptors in src/db.rs, src/versioning/version_manifest.rs'),
 'C11': ('remove_obsolete_files / open in src/db.rs', 'src/versioning/version_set.rs (live files, release_version), src/compaction/state.rs'),
 'C12': ('LogWriter in src/logs.rs', 'LogReader in src/logs.rs, src/fs/fs_mem.rs'),
 'C13': ('src/tables/block_builder.rs, src/tables/block.rs, src/key.rs', 'Table::get / Table::open in src/tables/table.rs, src/tables/footer.rs, src/utils/bytes.rs'),
 'C14': ('src/filter_policy.rs', 'src/tables/filter_block.rs, src/tables/filter_block_builder.rs, the filter handling of src/tables/table.rs'),
 'C15': ('read_block_from_disk / open in src/tables/table.rs, src/tables/block.rs', 'src/versioning/version_manifest.rs, src/batch.rs, src/utils/crc.rs'),
 'C16': ('recover_wal_records in src/db.rs, maybe_reuse_manifest in src/versioning/version_set.rs', 'src/logs.rs'),
 'C17': ('open / destroy_database / Drop in src/db.rs', 'lock handling in src/fs/fs_disk.rs and src/fs/fs_mem.rs'),
}
FOCUS_G = {
 'C01': ('src/key.rs (InternalKey ordering, LookupKey / conversions), src/utils/bytes.rs', 'DB::get / get_snapshot paths in src/db.rs, src/versioning/version.rs (update_stats, finalize), src/utils/cache.rs (LRU eviction / lookups)'),
 'C02': ('src/batch.rs (serialisation), src/compaction/worker.rs (compact_memtable / install_compaction_results ordering)', 'src/versioning/version_manifest.rs (edit codec), src/versioning/file_metadata.rs, src/fs/fs_mem.rs (rename / remove / list_dir)'),
 'C03': ('get_snapshot / release_snapshot in src/db.rs, src/snapshots.rs, src/utils/linked_list.rs', 'the drop rules of compact_tables in src/compaction/worker.rs, src/memtable.rs (iterator)'),
 'C04': ('src/memtable.rs (SkipListMemTableIter), src/tables/block.rs (BlockIter next / prev / seek_to_last)', 'src/tables/table.rs (TwoLevelIterator next / prev / skip_empty_*), CachingIterator in src/iterator.rs'),
 'C05': ('make_room_for_write / set_wal / memtable rotation in src/db.rs, src/compaction/worker.rs (compact_memtable)', 'get_snapshot / release_snapshot / get_descriptor in src/db.rs, src/utils/cache.rs (LRU shards)'),
 'C06': ('apply_changes / apply_batch_to_memtable in src/db.rs, src/writers.rs', 'DB::new_iterator / get_snapshot in src/db.rs, src/iterator.rs (sequence bound handling)'),
 'C07': ('src/compaction/worker.rs (compact_tables drop rules, install_compaction_results), src/compaction/state.rs', 'src/versioning/version_set.rs (pick_compaction, compact_range, compaction pointers), src/versioning/file_metadata.rs'),
 'C08': ('src/compaction/worker.rs (error handling of compact_memtable / compact_tables / coordinate_compaction), DB::set_bad_database_state users', 'src/tables/table_builder.rs (write_block / emit_block_to_disk), DB::build_table_from_iterator, src/fs/fs_mem.rs'),
 'C09': ('src/compaction/worker.rs (compaction_task / scheduling / thread loop), DB::maybe_schedule_compaction', 'get_descriptor / release_snapshot / compact_range in src/db.rs, src/versioning/version_builder.rs (assertions)'),
 'C10': ('src/compaction/worker.rs (compact_tables output metadata), src/compaction/state.rs', 'src/versioning/version.rs (finalize, debug summaries / descriptors), src/versioning/version_set.rs (write_snapshot, recover)'),
 'C11': ('src/table_cache.rs, src/compaction/worker.rs (cleanup_compaction / install_compaction_results)', 'src/file_names.rs (parsing of file names), destroy_database in src/db.rs'),
 'C12': ('BlockRecord serialisation / parsing and src/utils/crc.rs', 'LogReader::read_physical_record / LogReader::new, LogWriter::append (fragment type selection)'),
 'C13': ('src/tables/block_builder.rs, src/tables/block.rs (deserialize_entries / restart offsets)', 'src/tables/footer.rs, src/tables/block_handle.rs, src/tables/table_builder.rs (index entries, write_block), src/utils/bytes.rs'),
 'C14': ('src/tables/filter_block_builder.rs, src/tables/table_builder.rs (finalize: filter / metaindex blocks)', 'src/tables/filter_block.rs (offsets, base lg), Table::open / Table::get filter handling, hash function in src/filter_policy.rs'),
 'C15': ('src/logs.rs (BlockRecord::try_from, read_physical_record), src/utils/crc.rs', 'src/tables/block.rs (BlockReader::new on damaged bytes), src/tables/footer.rs, src/versioning/version_manifest.rs (decoder)'),
 'C16': ('src/logs.rs (LogReader end-of-file handling, LogWriter::new)', 'VersionSet::recover / maybe_reuse_manifest in src/versioning/version_set.rs, DB::recover_unrecorded_logs'),
 'C17': ('DB::open / DB::recover ordering in src/db.rs, src/fs/traits.rs (FileLock)', 'destroy_database in src/db.rs, src/fs/fs_disk.rs (TmpFileSystem root handling, lock_file)'),
}
EXCLUDED_H = '''Batch::append_batch, Batch::try_from, BatchElement::read_element, BlockBuilder::add_entry, BlockIter::seek, BlockRecord::try_from, BloomFilterPolicy::{create_filter, key_may_match, new}, CompactionManifest::{finalize_compaction_inputs, find_largest_key, find_smallest_boundary_file, is_base_level_for_key, make_merging_iterator, should_stop_before_key}, CompactionState::{finalize_version_manifest, finish_compaction_output_file, new, open_compaction_output_file}, CompactionWorker::{cleanup_compaction, compact_memtable, compact_tables, compaction_task, coordinate_compaction, install_compaction_results}, DB::{apply, apply_batch_to_memtable, apply_changes, build_group_commit_batch, build_table_from_iterator, compact_range, convert_memtable_to_file, destroy_database, drop, force_level_compaction, force_memtable_compaction, get, get_snapshot, initialize_as_new_db, is_first_writer, make_room_for_write, new_iterator, open, recover, recover_unrecorded_logs, recover_wal_records, remove_obsolete_files, set_current_file, should_schedule_compaction}, DatabaseIterator::{find_next_client_entry, find_prev_client_entry, next, sample_read_stats_for_current_key, seek, seek_to_first}, FileMetadata::{deserialize, set_largest_key}, FileNameHandler::get_temp_file_path, FilesEntryIterator::{seek, set_table_iter}, FilterBlockBuilder::{add_key, generate_filter, notify_new_data_block}, FilterBlockReader::{key_may_match, new, split_filters_with_offset}, InMemoryFileSystem::create_file, LRUCache::new_id, LinkedList::{iter, remove_node}, LogReader::{len, new, read_physical_record, read_record}, LogWriter::{append, emit_block, new}, MergingIterator::{get_error, next, prev, seek, seek_to_first}, lock_file (both file systems), read_length_prefixed_slice, read_raindb_level, SkipListMemTable::get, SkipListMemTableIter::seek, SnapshotList::{delete_snapshot, new_snapshot}, Table::{cache_block_reader, get, read_block_from_disk, read_filter_meta_block}, TableBuilder::{add_entry, finalize, flush_data_block, new}, TableCache::get, TwoLevelIterator::{init_data_block, next, prev, seek, seek_to_first}, Version::{debug_summary, get, get_overlapping_compaction_inputs, get_overlapping_files, get_representative_iterators, pick_level_for_memtable_output, record_read_sample}, VersionBuilder::{accumulate_changes, apply_changes, maybe_add_file}, the VersionChangeManifest codec (From / TryFrom), VersionSet::{compact_range, get_live_files, get_new_file_number, get_new_version_from_current, log_and_apply, mark_file_number_used, maybe_reuse_manifest, persist_changes, pick_compaction, recover, release_version, write_snapshot}, Writer::{set_operation_completed, set_operation_result}, find_file_with_upper_bound_range, CachingIterator::seek, MergingIterator::find_smallest, FilesEntryIterator::skip_empty_table_files_forward / _backward, TwoLevelIterator::skip_empty_data_blocks_forward / _backward, Version::has_overlap_in_level, DB::set_bad_database_state, VersionChangeManifest::add_file, CompactionManifest::set_change_manifest_for_trivial_move, create_file (all file systems), the Read impl of the in-memory file, TableCache::find_table'''
TASK = """# Task

You are helping to evaluate a verification effort for the Rust crate `raindb` (a LevelDB-style LSM-tree key-value store).
Your scratch git worktree of the repository is `{wt}` - work only inside it. Your output directory is `{out}`.
Do not read or modify anything under /repo or /verif, and do not look at other directories under /tmp/seedround.
Never use `git stash` (the stash is shared between all worktrees of the repository; use `git diff > file` and `git checkout -- .` instead).

## The property

**{title}**

{statement}

## What to produce

A *realistic* change to the crate's source (a plausible programming mistake or well-meant "optimisation"/refactoring, the kind
that survives review) that BREAKS this property while
  1. the crate still compiles,
  2. the existing test suite still passes completely (`cd {wt} && CARGO_TARGET_DIR={tgt} cargo test --offline --workspace`
     - three tests in `fs::fs_disk::os_file_system_tests` are known to be flaky, ignore those), and
  3. the breakage needs something specific to manifest - preferably {flavour} - and is NOT exposed at once by ordinary use.
To spread the sample over the code base, look for your change primarily in: {focus} (elsewhere only if you find nothing suitable there).
Keep the change small (a few lines, at most two sites). Do not touch tests, `src/verif.rs`, or anything guarded by
`cfg(feature = "verif")`. Do not add `unsafe` tricks, randomness or sleeps to the crate; the change must look like an honest mistake.

Plus a demonstration: a test (preferably a new file under `tests/` using the public API - see `tests/multi_threaded_test.rs`
and the `db_test` module in `src/db.rs` for how the API and `InMemoryFileSystem` / `TmpFileSystem` are used; if you need private
items put a new `#[cfg(test)]` test module in a NEW file and add only its `mod` line to an existing file that your source change
does not touch) that PASSES on the unchanged tree and FAILS with your change applied, deterministically (run it 3 times each way).
A hang counts as a failure only if the test itself detects it with a timeout and fails.

Always set `CARGO_TARGET_DIR={tgt}` and `CARGO_NET_OFFLINE=true` and pass `--offline` to cargo (there is no network).

## Output (all three files are required)

* `{out}/patch.diff`  - `git diff` of the source change only (must apply to a clean checkout with `git apply`).
* `{out}/demo.diff`   - `git diff` (use `git add -N` for new files) of the demonstration only (must apply to a clean checkout on its own,
                        and together with patch.diff).
* `{out}/meta.json`   - {{"property": "{pid}", "summary": "...what was changed and what goes wrong...", "file": "...", "function": "...",
                        "needs_to_manifest": "...the specific sequence / fault / interleaving / input...",
                        "demo_cmd": "CARGO_NET_OFFLINE=true cargo test --offline --test <name>"  (a plain shell command run from the repository root, nothing else in the string),
                        "why_existing_tests_pass": "..."}}

Before you finish: reset the worktree (`git checkout -- . && git clean -fdq -e target`), apply demo.diff alone and run demo_cmd (must pass),
then apply patch.diff too and run demo_cmd (must fail), then remove demo.diff's files and run the whole existing suite with only
patch.diff applied (must pass). Report in your final message the three outcomes in one line each. If after a serious attempt you cannot find such a
change, say so and write `{out}/FAILED.txt` explaining why.
"""
props = {}
for l in open(os.path.join(HERE, 'properties.jsonl')):
    p = json.loads(l); props[p['id']] = p
for pid in (want or sorted(props)):
    p = props[pid]
    for k in ('1', '2'):
        sid = '%s%s%s' % (pid, rnd, k); base = '/tmp/seedround/' + sid
        wt, out, tgt = base + '/wt', base + '/out', base + '/target'
        os.makedirs(out, exist_ok=True)
        subprocess.run(['git', '-C', '/repo', 'worktree', 'remove', '--force', wt], capture_output=True)
        subprocess.run(['git', '-C', '/repo', 'worktree', 'add', '--detach', wt, 'HEAD'], check=True, capture_output=True)
        open(base + '/TASK.md', 'w').write(TASK.format(wt=wt, out=out, tgt=tgt, title=p['title'], statement=p['statement'], pid=pid, flavour=FLAVOUR[k], focus=('any function the property depends on that is NOT one of the following (these were used for earlier changes; a change inside one of them does not count): ' + EXCLUDED_H) if rnd >= 'h' else ((FOCUS_G if rnd >= 'g' else FOCUS)[pid][int(k) - 1] if rnd >= 'f' else 'any file the property depends on')))
        print(sid, base + '/TASK.md')
