#!/bin/bash
# usage: tools/process_seed.sh <seed id>...   -- takes the output of a seed sub-agent (/tmp/seedround/<id>/out), confirms it in a scratch
# worktree (tools/verify_seed.sh), stores it under seeded/<id>/ when confirmed, and removes the agent's worktree and build output.
for ID in "$@"; do
  src=/tmp/seedround/$ID/out; dst=/tmp/seedout/$ID
  if [ ! -f $src/patch.diff ] || [ ! -f $src/demo.diff ] || [ ! -f $src/meta.json ]; then echo "$ID: incomplete output"; continue; fi
  rm -rf $dst; mkdir -p /tmp/seedout; cp -r $src $dst
  python3 - $dst/meta.json <<'PY'
import json,re,sys
m=json.load(open(sys.argv[1])); m["demo_cmd"]=re.sub(r"\s*\(run from.*$","",m["demo_cmd"]).strip(); json.dump(m,open(sys.argv[1],"w"),indent=1)
PY
  /verif/tools/verify_seed.sh $dst | tail -1
  if grep -q '"verdict": "confirmed"' $dst/verify.json; then python3 /verif/tools/store_seed.py $dst; fi
  git -C /repo worktree remove --force /tmp/seedround/$ID/wt 2>/dev/null; rm -rf /tmp/seedround/$ID/target /tmp/seedround/$ID/wt
done
git -C /repo worktree prune
