#!/bin/bash
# usage: tools/verify_seed.sh <seed dir with patch.diff demo.diff meta.json>
# Confirms in a scratch worktree (outside /repo and /verif): the demo passes without the change and fails with it,
# and the existing suite passes with the change. Writes <dir>/verify.json. Removes the worktree afterwards.
set -u
D="$(cd "$1" && pwd)"; ID="$(basename "$D")"
WT=/tmp/vs-$ID
export CARGO_NET_OFFLINE=true CARGO_TARGET_DIR=/tmp/vs-target
git -C /repo worktree remove --force "$WT" 2>/dev/null
git -C /repo worktree add --detach "$WT" HEAD >/dev/null 2>&1 || { echo "worktree failed"; exit 3; }
cd "$WT"
DEMO_CMD=$(python3 -c "import json;print(json.load(open('$D/meta.json'))['demo_cmd'])")
DEMO_CMD=${DEMO_CMD//CARGO_NET_OFFLINE=true /}
res() { python3 - "$@" <<'PY'
import json,sys
d=dict(zip(sys.argv[1::2], sys.argv[2::2])); json.dump(d, open(d.pop('out'),'w'), indent=1); print(d)
PY
}
applies_patch=yes; applies_demo=yes
git apply --check "$D/patch.diff" 2>/dev/null || applies_patch=no
git apply --check "$D/demo.diff" 2>/dev/null || applies_demo=no
if [ $applies_patch = no ] || [ $applies_demo = no ]; then
  res out "$D/verify.json" applies_patch $applies_patch applies_demo $applies_demo verdict "does-not-apply-at-HEAD" head "$(git -C /repo rev-parse --short HEAD)"
  cd /; git -C /repo worktree remove --force "$WT"; exit 1
fi
git apply "$D/demo.diff"
timeout 1200 bash -c "$DEMO_CMD" > /tmp/vs-$ID.demo0.log 2>&1; demo_without=$?
git apply "$D/patch.diff"
timeout 1200 bash -c "$DEMO_CMD" > /tmp/vs-$ID.demo1.log 2>&1; demo_with=$?
git apply -R "$D/demo.diff"
timeout 1800 cargo nextest run --workspace --no-fail-fast --tool-config-file pb:/w/lib/nextest.toml --profile pb --test-threads 8 --offline > /tmp/vs-$ID.suite.log 2>&1; suite=$?
fails=$(grep -E "^\s+FAIL " /tmp/vs-$ID.suite.log | grep -v "fs_disk::os_file_system_tests" | sort -u | wc -l)
verdict=rejected
if [ $demo_without -eq 0 ] && [ $demo_with -ne 0 ] && [ "$fails" -eq 0 ]; then verdict=confirmed; fi
res out "$D/verify.json" demo_without_change_exit $demo_without demo_with_change_exit $demo_with suite_exit $suite suite_non_flaky_failures "$fails" verdict $verdict head "$(git -C /repo rev-parse --short HEAD)" demo_cmd "$DEMO_CMD"
cd /; git -C /repo worktree remove --force "$WT"
