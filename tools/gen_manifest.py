#!/usr/bin/env python3
"""Regenerate MANIFEST.json from mirse/registry.py + tools/manifest_meta.py (kept in sync by construction)."""
import json, os, sys
HERE = os.path.dirname(os.path.dirname(os.path.abspath(__file__)))
sys.path.insert(0, HERE); sys.path.insert(0, os.path.join(HERE, 'tools'))
import manifest_meta as meta

def main():
    checks = []
    for pid in sorted(meta.CLAIMED):
        c = meta.CLAIMED[pid]
        checks.append({
            'property_id': pid,
            'quick_cmd': './check %s --tier quick' % pid,
            'thorough_cmd': './check %s --tier thorough' % pid,
            'evidence_file': 'evidence/%s.json' % pid,
            'replay_cmd_template': './check --replay {path}',
            'engine': c['engine'],
            'level_claimed': {'category': 'model_checking', 'text': c['text'], 'design_ref': c['design_ref']},
            'level_note': c['note'],
            'technique': c['technique'],
        })
    na = [{'property_id': pid, 'reason': meta.NOT_APPLICABLE[pid]} for pid in sorted(meta.NOT_APPLICABLE)]
    m = {
        'version': 1,
        'setup_cmd': './setup.sh',
        'hooks': meta.HOOKS,
        'engines': meta.ENGINES,
        'checks': checks,
        'notes': meta.NOTES,
        'not_applicable': na,
    }
    json.dump(m, open(os.path.join(HERE, 'MANIFEST.json'), 'w'), indent=1)
    all_ids = {'C%02d' % i for i in range(1, 18)}
    assert set(meta.CLAIMED) | set(meta.NOT_APPLICABLE) == all_ids and not (set(meta.CLAIMED) & set(meta.NOT_APPLICABLE)), 'every property exactly once'
    print('MANIFEST.json: %d checks, %d not applicable' % (len(checks), len(na)))
main()
