//! A pass-through file system over any `FileSystem` (e.g. the disk one, with real flock) that calls a hook once, right before
//! the first destructive directory operation (`remove_dir_all`).
use raindb::fs::{FileLock, FileSystem, RandomAccessFile, ReadonlyRandomAccessFile};
use std::io::Result;
use std::path::{Path, PathBuf};
use std::sync::{Arc, Mutex};

pub struct HookFs {
    pub inner: Arc<dyn FileSystem>,
    pub before_first_removal: Mutex<Option<Box<dyn FnOnce() + Send>>>,
    /// called once, right before a file whose path contains the pattern is created
    pub before_create: Mutex<Option<(String, Box<dyn FnOnce() + Send>)>>,
}

impl HookFs {
    pub fn new(inner: Arc<dyn FileSystem>) -> Self {
        HookFs { inner, before_first_removal: Mutex::new(None), before_create: Mutex::new(None) }
    }
    pub fn on_create(&self, path_contains: &str, f: Box<dyn FnOnce() + Send>) {
        *self.before_create.lock().unwrap() = Some((path_contains.to_string(), f));
    }
    pub fn set_hook(&self, f: Box<dyn FnOnce() + Send>) {
        *self.before_first_removal.lock().unwrap() = Some(f);
    }
}

impl FileSystem for HookFs {
    fn get_name(&self) -> String {
        "HookFs".to_string()
    }
    fn create_dir(&self, path: &Path) -> Result<()> {
        self.inner.create_dir(path)
    }
    fn create_dir_all(&self, path: &Path) -> Result<()> {
        self.inner.create_dir_all(path)
    }
    fn list_dir(&self, path: &Path) -> Result<Vec<PathBuf>> {
        self.inner.list_dir(path)
    }
    fn open_file(&self, path: &Path) -> Result<Box<dyn ReadonlyRandomAccessFile>> {
        self.inner.open_file(path)
    }
    fn rename(&self, from: &Path, to: &Path) -> Result<()> {
        self.inner.rename(from, to)
    }
    fn create_file(&self, path: &Path, append: bool) -> Result<Box<dyn RandomAccessFile>> {
        let hook = {
            let mut g = self.before_create.lock().unwrap();
            if g.as_ref().map_or(false, |(p, _)| path.to_string_lossy().contains(p.as_str())) { g.take() } else { None }
        };
        if let Some((_, h)) = hook {
            h();
        }
        self.inner.create_file(path, append)
    }
    fn remove_file(&self, path: &Path) -> Result<()> {
        self.inner.remove_file(path)
    }
    fn remove_dir(&self, path: &Path) -> Result<()> {
        self.inner.remove_dir(path)
    }
    fn remove_dir_all(&self, path: &Path) -> Result<()> {
        let hook = self.before_first_removal.lock().unwrap().take();
        if let Some(h) = hook {
            h();
        }
        self.inner.remove_dir_all(path)
    }
    fn get_file_size(&self, path: &Path) -> Result<u64> {
        self.inner.get_file_size(path)
    }
    fn is_dir(&self, path: &Path) -> Result<bool> {
        self.inner.is_dir(path)
    }
    fn lock_file(&self, path: &Path) -> Result<FileLock> {
        self.inner.lock_file(path)
    }
}
