//! Verification harness crate for RainDB (Engine A harnesses live behind cfg(kani); native replay in bin/replay.rs).
#![recursion_limit = "512"]
pub mod battery;
pub mod faultfs;
pub mod hookfs;
pub mod onefs;
pub mod util;
#[cfg(kani)]
mod proofs;
