//! Verification harness crate for RainDB (Engine A harnesses live behind cfg(kani); native replay in bin/replay.rs).
pub mod util;
pub mod faultfs;
