//! A one-file in-memory file system without hashing or locks (usable under Kani; also used natively).
#![allow(dead_code)]
use std::cell::UnsafeCell;
use std::io::{self, Read, Seek, SeekFrom, Write};
use std::path::{Path, PathBuf};
use std::sync::Arc;

use raindb::fs::{FileLock, FileSystem, RandomAccessFile, ReadonlyRandomAccessFile};

/// One-file file system. Content = `base` virtual zero bytes followed by `data`.
pub struct Store {
    pub data: Vec<u8>,
    pub cut: usize,
}
pub struct OneFs {
    store: Arc<SyncCell>,
}
pub struct SyncCell(UnsafeCell<Store>);
unsafe impl Send for SyncCell {}
unsafe impl Sync for SyncCell {}

impl OneFs {
    pub fn new() -> Self {
        OneFs { store: Arc::new(SyncCell(UnsafeCell::new(Store { data: Vec::new(), cut: usize::MAX }))) }
    }
    pub fn store(&self) -> &mut Store {
        unsafe { &mut *self.store.0.get() }
    }
}

pub struct Handle {
    store: Arc<SyncCell>,
    cursor: usize,
}
impl Handle {
    fn st(&self) -> &mut Store {
        unsafe { &mut *self.store.0.get() }
    }
}
impl Read for Handle {
    fn read(&mut self, buf: &mut [u8]) -> io::Result<usize> {
        let st = self.st();
        let vis = if st.cut < st.data.len() { st.cut } else { st.data.len() };
        let avail = if self.cursor < vis { vis - self.cursor } else { 0 };
        let n = if buf.len() < avail { buf.len() } else { avail };
        let c = self.cursor;
        macro_rules! cp { ($i:expr) => { if $i < buf.len() && $i < n { buf[$i] = st.data[c + $i]; } } }
        cp!(0); cp!(1); cp!(2); cp!(3); cp!(4); cp!(5); cp!(6); cp!(7);
        assert!(buf.len() <= 8);
        self.cursor += n;
        Ok(n)
    }
}
impl Seek for Handle {
    fn seek(&mut self, pos: SeekFrom) -> io::Result<u64> {
        if let SeekFrom::Start(p) = pos {
            self.cursor = p as usize;
        }
        Ok(self.cursor as u64)
    }
}
impl Write for Handle {
    fn write(&mut self, buf: &[u8]) -> io::Result<usize> {
        self.st().data.extend_from_slice(buf);
        Ok(buf.len())
    }
    fn flush(&mut self) -> io::Result<()> {
        Ok(())
    }
}
impl ReadonlyRandomAccessFile for Handle {
    fn read_from(&self, buf: &mut [u8], offset: usize) -> io::Result<usize> {
        let st = self.st();
        if offset > st.data.len() {
            return Ok(0);
        }
        let avail = st.data.len() - offset;
        let n = if buf.len() < avail { buf.len() } else { avail };
        buf[..n].copy_from_slice(&st.data[offset..offset + n]);
        Ok(n)
    }
    fn len(&self) -> io::Result<u64> {
        let st = self.st();
        let vis = if st.cut < st.data.len() { st.cut } else { st.data.len() };
        Ok(vis as u64)
    }
}
impl RandomAccessFile for Handle {
    fn append(&mut self, buf: &[u8]) -> io::Result<usize> {
        self.write(buf)
    }
}

impl FileSystem for OneFs {
    fn get_name(&self) -> String {
        String::new()
    }
    fn create_dir(&self, _path: &Path) -> io::Result<()> {
        Ok(())
    }
    fn create_dir_all(&self, _path: &Path) -> io::Result<()> {
        Ok(())
    }
    fn list_dir(&self, _path: &Path) -> io::Result<Vec<PathBuf>> {
        Ok(vec![])
    }
    fn open_file(&self, _path: &Path) -> io::Result<Box<dyn ReadonlyRandomAccessFile>> {
        Ok(Box::new(Handle { store: Arc::clone(&self.store), cursor: 0 }))
    }
    fn rename(&self, _from: &Path, _to: &Path) -> io::Result<()> {
        Ok(())
    }
    fn create_file(&self, _path: &Path, append: bool) -> io::Result<Box<dyn RandomAccessFile>> {
        if !append {
            self.store().data.clear();
        }
        let cursor = self.store().data.len();
        Ok(Box::new(Handle { store: Arc::clone(&self.store), cursor }))
    }
    fn remove_file(&self, _path: &Path) -> io::Result<()> {
        Ok(())
    }
    fn remove_dir(&self, _path: &Path) -> io::Result<()> {
        Ok(())
    }
    fn remove_dir_all(&self, _path: &Path) -> io::Result<()> {
        Ok(())
    }
    fn get_file_size(&self, _path: &Path) -> io::Result<u64> {
        Ok(self.store().data.len() as u64)
    }
    fn is_dir(&self, _path: &Path) -> io::Result<bool> {
        Ok(false)
    }
    fn lock_file(&self, _path: &Path) -> io::Result<FileLock> {
        Err(io::Error::from(io::ErrorKind::Unsupported))
    }
}

