//! Argument parsing helpers for the replay binary (no external crates).
pub fn hex(s: &str) -> Vec<u8> {
    let s = s.trim();
    if s == "-" || s.is_empty() {
        return vec![];
    }
    (0..s.len() / 2).map(|i| u8::from_str_radix(&s[2 * i..2 * i + 2], 16).expect("hex")).collect()
}
pub fn tohex(b: &[u8]) -> String {
    if b.is_empty() {
        return "-".to_string();
    }
    b.iter().map(|x| format!("{:02x}", x)).collect()
}
pub fn num(s: &str) -> u64 {
    s.trim().parse::<u64>().expect("number")
}
/// "uk:seq" -> (bytes, seq)
pub fn key(s: &str) -> (Vec<u8>, u64) {
    let p: Vec<&str> = s.split(':').collect();
    (hex(p[0]), num(p[1]))
}
