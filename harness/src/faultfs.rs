//! A fault-injecting, recording file system on top of raindb's in-memory file system
//! (the `FileSystem` trait is public; no hook needed).
use raindb::fs::{FileLock, FileSystem, InMemoryFileSystem, RandomAccessFile, ReadonlyRandomAccessFile};
use std::io::{Error, ErrorKind, Read, Result, Seek, SeekFrom, Write};
use std::path::{Path, PathBuf};
use std::sync::{Arc, Mutex};

#[derive(Default)]
pub struct Ctl {
    /// only operations on paths containing this string are counted / failed
    pub path_contains: String,
    /// the k-th (1-based) counted mutating operation after arming fails; 0 = disarmed
    pub fail_at: usize,
    pub sticky: bool,
    pub seen: usize,
    pub failures: usize,
    pub log: Vec<String>,
    /// called (once) when a mutating operation touches a path containing `callback_path`
    pub callback_path: String,
    pub callback: Option<Arc<dyn Fn() + Send + Sync>>,
    /// number of upcoming size queries (`len`) on file handles that fail
    pub fail_len: usize,
    /// opening (read-only) a path containing this string fails with PermissionDenied; empty = off
    pub fail_open: String,
    /// the failing open reports NotFound instead of PermissionDenied
    pub fail_open_not_found: bool,
    /// listing a directory whose path contains this string fails; empty = off
    pub fail_list: String,
    /// `write` on a file whose path contains `short_write_path` accepts at most this many bytes per call (0 = unlimited)
    pub max_write: usize,
    pub short_write_path: String,
    /// number of upcoming positional reads (`read_from`) on read-only handles of paths containing `fail_read_path` that fail
    pub fail_reads: usize,
    pub fail_read_path: String,
    pub reads: usize,
}

#[derive(Clone)]
pub struct FaultFs {
    pub inner: Arc<InMemoryFileSystem>,
    pub ctl: Arc<Mutex<Ctl>>,
}

impl FaultFs {
    pub fn new() -> Self {
        FaultFs { inner: Arc::new(InMemoryFileSystem::new()), ctl: Arc::new(Mutex::new(Ctl::default())) }
    }
    pub fn arm(&self, path_contains: &str, fail_at: usize, sticky: bool) {
        let mut c = self.ctl.lock().unwrap();
        c.path_contains = path_contains.to_string();
        c.fail_at = fail_at;
        c.sticky = sticky;
        c.seen = 0;
    }
    pub fn on_touch(&self, path_contains: &str, cb: Arc<dyn Fn() + Send + Sync>) {
        let mut c = self.ctl.lock().unwrap();
        c.callback_path = path_contains.to_string();
        c.callback = Some(cb);
    }
    pub fn fail_open(&self, path_contains: &str) {
        let mut c = self.ctl.lock().unwrap();
        c.fail_open = path_contains.to_string();
        c.fail_open_not_found = false;
    }
    /// like `fail_open`, but the error is the one a missing file gives (ErrorKind::NotFound)
    pub fn fail_open_not_found(&self, path_contains: &str) {
        let mut c = self.ctl.lock().unwrap();
        c.fail_open = path_contains.to_string();
        c.fail_open_not_found = true;
    }
    /// the next `n` positional reads of files whose path contains `path_contains` fail (transient read fault)
    pub fn fail_next_reads(&self, path_contains: &str, n: usize) {
        let mut c = self.ctl.lock().unwrap();
        c.fail_read_path = path_contains.to_string();
        c.fail_reads = n;
    }
    /// number of positional reads served or failed so far
    pub fn reads(&self) -> usize {
        self.ctl.lock().unwrap().reads
    }
    /// listing a directory whose path contains `path_contains` fails (empty string = off)
    pub fn fail_list(&self, path_contains: &str) {
        self.ctl.lock().unwrap().fail_list = path_contains.to_string();
    }
    /// `Write::write` on matching files accepts at most `max` bytes per call (a short write, as the Write contract allows)
    pub fn short_writes(&self, path_contains: &str, max: usize) {
        let mut c = self.ctl.lock().unwrap();
        c.short_write_path = path_contains.to_string();
        c.max_write = max;
    }
    pub fn fail_next_len(&self, n: usize) {
        self.ctl.lock().unwrap().fail_len = n;
    }
    pub fn disarm(&self) {
        self.ctl.lock().unwrap().fail_at = 0;
    }
    pub fn take_log(&self) -> Vec<String> {
        std::mem::take(&mut self.ctl.lock().unwrap().log)
    }
    pub fn failures(&self) -> usize {
        self.ctl.lock().unwrap().failures
    }
}

fn gate(ctl: &Arc<Mutex<Ctl>>, op: &str, path: &Path) -> Result<()> {
    let p = path.to_string_lossy().to_string();
    let cb = {
        let mut c = ctl.lock().unwrap();
        if c.callback.is_some() && !c.callback_path.is_empty() && p.contains(&c.callback_path) && !op.starts_with("create") {
            c.callback.take()
        } else {
            None
        }
    };
    if let Some(cb) = cb {
        cb();
    }
    let mut c = ctl.lock().unwrap();
    c.log.push(format!("{} {}", op, p));
    if c.fail_at == 0 || !p.contains(&c.path_contains) {
        return Ok(());
    }
    c.seen += 1;
    if c.seen == c.fail_at || (c.sticky && c.seen > c.fail_at) {
        c.failures += 1;
        return Err(Error::new(ErrorKind::Other, "injected fault"));
    }
    Ok(())
}

struct FFile {
    inner: Box<dyn RandomAccessFile>,
    path: PathBuf,
    ctl: Arc<Mutex<Ctl>>,
}
impl Read for FFile {
    fn read(&mut self, buf: &mut [u8]) -> Result<usize> {
        self.inner.read(buf)
    }
}
impl Seek for FFile {
    fn seek(&mut self, pos: SeekFrom) -> Result<u64> {
        self.inner.seek(pos)
    }
}
impl Write for FFile {
    fn write(&mut self, buf: &[u8]) -> Result<usize> {
        gate(&self.ctl, "write", &self.path)?;
        let max = {
            let c = self.ctl.lock().unwrap();
            if c.max_write > 0 && self.path.to_string_lossy().contains(&c.short_write_path) { c.max_write } else { usize::MAX }
        };
        self.inner.write(&buf[..buf.len().min(max)])
    }
    fn flush(&mut self) -> Result<()> {
        self.inner.flush()
    }
}
impl ReadonlyRandomAccessFile for FFile {
    fn read_from(&self, buf: &mut [u8], offset: usize) -> Result<usize> {
        self.inner.read_from(buf, offset)
    }
    fn len(&self) -> Result<u64> {
        {
            let mut c = self.ctl.lock().unwrap();
            if c.fail_len > 0 {
                c.fail_len -= 1;
                c.failures += 1;
                return Err(Error::new(ErrorKind::Other, "injected fault (len)"));
            }
        }
        self.inner.len()
    }
}
impl RandomAccessFile for FFile {
    fn append(&mut self, buf: &[u8]) -> Result<usize> {
        gate(&self.ctl, "append", &self.path)?;
        self.inner.append(buf)
    }
}

struct RFile {
    inner: Box<dyn ReadonlyRandomAccessFile>,
    path: PathBuf,
    ctl: Arc<Mutex<Ctl>>,
}
impl Read for RFile {
    fn read(&mut self, buf: &mut [u8]) -> Result<usize> {
        self.inner.read(buf)
    }
}
impl Seek for RFile {
    fn seek(&mut self, pos: SeekFrom) -> Result<u64> {
        self.inner.seek(pos)
    }
}
impl ReadonlyRandomAccessFile for RFile {
    fn read_from(&self, buf: &mut [u8], offset: usize) -> Result<usize> {
        {
            let mut c = self.ctl.lock().unwrap();
            c.reads += 1;
            if c.fail_reads > 0 && self.path.to_string_lossy().contains(&c.fail_read_path) {
                c.fail_reads -= 1;
                c.failures += 1;
                return Err(Error::new(ErrorKind::Other, "injected fault (read)"));
            }
        }
        self.inner.read_from(buf, offset)
    }
    fn len(&self) -> Result<u64> {
        self.inner.len()
    }
}

impl FileSystem for FaultFs {
    fn get_name(&self) -> String {
        "FaultFs".to_string()
    }
    fn create_dir(&self, path: &Path) -> Result<()> {
        self.inner.create_dir(path)
    }
    fn create_dir_all(&self, path: &Path) -> Result<()> {
        self.inner.create_dir_all(path)
    }
    fn list_dir(&self, path: &Path) -> Result<Vec<PathBuf>> {
        {
            let mut c = self.ctl.lock().unwrap();
            if !c.fail_list.is_empty() && path.to_string_lossy().contains(&c.fail_list) {
                c.failures += 1;
                return Err(Error::new(ErrorKind::Other, "injected fault (list_dir)"));
            }
        }
        self.inner.list_dir(path)
    }
    fn open_file(&self, path: &Path) -> Result<Box<dyn ReadonlyRandomAccessFile>> {
        {
            let mut c = self.ctl.lock().unwrap();
            if !c.fail_open.is_empty() && path.to_string_lossy().contains(&c.fail_open) {
                c.failures += 1;
                let kind = if c.fail_open_not_found { ErrorKind::NotFound } else { ErrorKind::PermissionDenied };
                return Err(Error::new(kind, "injected fault (open)"));
            }
        }
        let f = self.inner.open_file(path)?;
        Ok(Box::new(RFile { inner: f, path: path.to_path_buf(), ctl: Arc::clone(&self.ctl) }))
    }
    fn rename(&self, from: &Path, to: &Path) -> Result<()> {
        gate(&self.ctl, "rename", to)?;
        self.inner.rename(from, to)
    }
    fn create_file(&self, path: &Path, append: bool) -> Result<Box<dyn RandomAccessFile>> {
        gate(&self.ctl, if append { "create-append" } else { "create" }, path)?;
        let f = self.inner.create_file(path, append)?;
        Ok(Box::new(FFile { inner: f, path: path.to_path_buf(), ctl: Arc::clone(&self.ctl) }))
    }
    fn remove_file(&self, path: &Path) -> Result<()> {
        gate(&self.ctl, "remove", path)?;
        self.inner.remove_file(path)
    }
    fn remove_dir(&self, path: &Path) -> Result<()> {
        self.inner.remove_dir(path)
    }
    fn remove_dir_all(&self, path: &Path) -> Result<()> {
        gate(&self.ctl, "remove_dir_all", path)?;
        self.inner.remove_dir_all(path)
    }
    fn get_file_size(&self, path: &Path) -> Result<u64> {
        self.inner.get_file_size(path)
    }
    fn is_dir(&self, path: &Path) -> Result<bool> {
        self.inner.is_dir(path)
    }
    fn lock_file(&self, path: &Path) -> Result<FileLock> {
        self.inner.lock_file(path)
    }
}
