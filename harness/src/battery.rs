//! Generic differential battery: deterministic workloads through the public API of the real build, compared with a sorted-map model.
//! It is the fall-back native confirmation for solver counterexamples that have no scenario of their own: a VIOLATION is only reported when
//! the solver found a counterexample AND the real build demonstrably departs from the model / loses acknowledged writes here.
//! Sections: `workload` (reads, snapshots, iterators, compactions, reopen, layout audit, directory audit), `crash` (every later file-system
//! operation fails from the k-th on, reopen), `fault` (one file-system operation fails, the database is used further and reopened).
use crate::faultfs::FaultFs;
use raindb::{Batch, DbOptions, RainDbIterator, ReadOptions, Snapshot, WriteOptions, DB};
use std::collections::BTreeMap;
use std::sync::Arc;

pub struct Lcg(pub u64);
impl Lcg {
    pub fn next(&mut self) -> u64 {
        self.0 = self.0.wrapping_mul(6364136223846793005).wrapping_add(1442695040888963407);
        self.0 >> 33
    }
    pub fn below(&mut self, n: u64) -> u64 {
        self.next() % n
    }
}

type Model = BTreeMap<Vec<u8>, Vec<u8>>;

fn key(r: &mut Lcg) -> Vec<u8> {
    match r.below(40) {
        0 => vec![],
        1 => vec![0],
        2 => vec![0xff, 0xff],
        3 => b"k1".to_vec(),
        n => format!("k{:02}", n % 30).into_bytes(),
    }
}

fn value(r: &mut Lcg, big: bool) -> Vec<u8> {
    let len = match r.below(20) {
        0 => 0,
        1 => 1,
        2..=12 => 10 + r.below(90) as usize,
        13..=17 => 200 + r.below(1500) as usize,
        18 => 3000 + r.below(3000) as usize,
        _ => {
            if big {
                33000 + r.below(9000) as usize
            } else {
                500
            }
        }
    };
    let mut seed = r.next();
    (0..len)
        .map(|_| {
            seed = seed.wrapping_mul(6364136223846793005).wrapping_add(1442695040888963407);
            (seed >> 56) as u8
        })
        .collect()
}

fn show(k: &[u8]) -> String {
    k.iter().map(|b| format!("{:02x}", b)).collect::<String>()
}

fn check_state(db: &DB, snap: Option<&Snapshot>, model: &Model, what: &str, r: &mut Lcg) -> Option<String> {
    let ro = || match snap {
        Some(s) => ReadOptions { fill_cache: true, snapshot: Some(s.clone()) },
        None => ReadOptions::default(),
    };
    // point reads: every key of the key space
    let mut probe: Vec<Vec<u8>> = (0..30).map(|n| format!("k{:02}", n).into_bytes()).collect();
    probe.extend([vec![], vec![0], vec![0xff, 0xff], b"k1".to_vec(), b"zz".to_vec()]);
    for k in &probe {
        let got = db.get(ro(), k);
        match (got, model.get(k)) {
            (Ok(v), Some(w)) if &v == w => {}
            (Err(raindb::errors::RainDBError::KeyNotFound), None) => {}
            (g, w) => {
                return Some(format!("{}: get({}) = {:?} bytes / {}, model {:?} bytes", what, show(k), g.as_ref().map(|v| v.len()).ok(), g.is_ok(), w.map(|v| v.len())));
            }
        }
    }
    // forward scan
    let mut it = match db.new_iterator(ro()) {
        Ok(it) => it,
        Err(e) => return Some(format!("{}: new_iterator failed: {}", what, e)),
    };
    let want: Vec<(&Vec<u8>, &Vec<u8>)> = model.iter().collect();
    let _ = it.seek_to_first();
    let mut i = 0;
    while it.is_valid() {
        let (k, v) = it.current().unwrap();
        if i >= want.len() || k != want[i].0 || v != want[i].1 {
            return Some(format!("{}: forward scan position {}: iterator at {}, model {}", what, i, show(k), want.get(i).map(|x| show(x.0)).unwrap_or_else(|| "end".to_string())));
        }
        i += 1;
        if it.next().is_none() {
            break;
        }
    }
    if i != want.len() {
        return Some(format!("{}: forward scan ends after {} of {} entries", what, i, want.len()));
    }
    // backward scan
    if !want.is_empty() {
        let _ = it.seek_to_last();
        let mut j = want.len();
        while it.is_valid() {
            let (k, v) = it.current().unwrap();
            if j == 0 || k != want[j - 1].0 || v != want[j - 1].1 {
                return Some(format!("{}: backward scan position {}: iterator at {}", what, j, show(k)));
            }
            j -= 1;
            if it.prev().is_none() {
                break;
            }
        }
        if j != 0 {
            return Some(format!("{}: backward scan stops with {} entries left", what, j));
        }
    }
    // seeks (stored keys, gaps, beyond both ends) followed by a step in a random direction
    for _ in 0..12 {
        let mut t = key(r);
        if r.below(2) == 0 {
            t.push(b'!');
        }
        let _ = it.seek(&t);
        let pos = want.iter().position(|(k, _)| **k >= t);
        match (it.is_valid(), pos) {
            (true, Some(p)) if it.current().unwrap().0 == want[p].0 && it.current().unwrap().1 == want[p].1 => {
                if r.below(2) == 0 {
                    it.next();
                    let ok = if p + 1 < want.len() { it.is_valid() && it.current().unwrap().0 == want[p + 1].0 } else { !it.is_valid() };
                    if !ok {
                        return Some(format!("{}: seek({}) then next: wrong position", what, show(&t)));
                    }
                } else {
                    it.prev();
                    let ok = if p > 0 { it.is_valid() && it.current().unwrap().0 == want[p - 1].0 } else { !it.is_valid() };
                    if !ok {
                        return Some(format!("{}: seek({}) then prev: wrong position", what, show(&t)));
                    }
                }
            }
            (false, None) => {}
            (v, p) => return Some(format!("{}: seek({}): valid={} at {:?}, model position {:?}", what, show(&t), v, it.current().map(|c| show(c.0)), p)),
        }
    }
    None
}

/// One deterministic workload; returns the first divergence.
pub fn workload(seed: u64, memtable: usize, file: u64, block: usize, reuse: bool, ops: usize) -> Option<String> {
    let mut r = Lcg(seed);
    let mut o = DbOptions::with_memory_env();
    o.db_path = "db".to_string();
    o.create_if_missing = true;
    o.max_memtable_size = memtable;
    o.max_file_size = file;
    o.max_block_size = block;
    o.reuse_log_files = reuse;
    let mut db = Some(DB::open(o.clone()).expect("open"));
    let mut model: Model = BTreeMap::new();
    let mut snaps: Vec<(Snapshot, Model)> = vec![];
    for step in 0..ops {
        let d = db.as_ref().unwrap();
        let what = format!("workload seed {} (memtable {}, file {}, block {}, reuse {}) step {}", seed, memtable, file, block, reuse, step);
        match r.below(100) {
            0..=54 => {
                let (k, v) = (key(&mut r), value(&mut r, memtable >= 32 * 1024));
                if let Err(e) = d.put(WriteOptions::default(), k.clone(), v.clone()) {
                    return Some(format!("{}: put failed: {}", what, e));
                }
                model.insert(k, v);
            }
            55..=69 => {
                let k = key(&mut r);
                if let Err(e) = d.delete(WriteOptions::default(), k.clone()) {
                    return Some(format!("{}: delete failed: {}", what, e));
                }
                model.remove(&k);
            }
            70..=79 => {
                let mut b = Batch::new();
                for _ in 0..(2 + r.below(5)) {
                    let k = key(&mut r);
                    if r.below(4) == 0 {
                        b.add_delete(k.clone());
                        model.remove(&k);
                    } else {
                        let v = value(&mut r, false);
                        b.add_put(k.clone(), v.clone());
                        model.insert(k, v);
                    }
                }
                if let Err(e) = d.apply(WriteOptions::default(), b) {
                    return Some(format!("{}: apply failed: {}", what, e));
                }
            }
            80..=83 => {
                if snaps.len() < 4 {
                    snaps.push((d.get_snapshot(), model.clone()));
                } else {
                    let (s, _) = snaps.remove(r.below(4) as usize);
                    d.release_snapshot(s);
                }
            }
            84..=86 => {
                let _ = d.flush_for_verif();
            }
            87..=88 => {
                d.compact_range(None..None);
                let p = d.layout_audit_for_verif();
                if !p.is_empty() {
                    return Some(format!("{}: layout audit after compact_range: {}", what, p.join(" ; ")));
                }
            }
            89..=90 => {
                let (a, b) = (key(&mut r), key(&mut r));
                let (a, b) = if a <= b { (a, b) } else { (b, a) };
                d.compact_range(Some(a.as_slice())..Some(b.as_slice()));
            }
            91..=92 => {
                for (s, _) in snaps.drain(..) {
                    d.release_snapshot(s);
                }
                db = None;
                db = Some(match DB::open(o.clone()) {
                    Ok(d) => d,
                    Err(e) => return Some(format!("{}: reopen failed: {}", what, e)),
                });
                let p = db.as_ref().unwrap().layout_audit_for_verif();
                if !p.is_empty() {
                    return Some(format!("{}: layout audit after reopen: {}", what, p.join(" ; ")));
                }
            }
            _ => {
                if let Some(e) = check_state(d, None, &model, &what, &mut r) {
                    return Some(e);
                }
                for (i, (s, m)) in snaps.iter().enumerate() {
                    if let Some(e) = check_state(d, Some(s), m, &format!("{} at snapshot {}", what, i), &mut r) {
                        return Some(e);
                    }
                }
            }
        }
    }
    // quiesce: final check, release everything, compact, directory = tables of the version
    let d = db.as_ref().unwrap();
    let what = format!("workload seed {} (memtable {}, file {}, block {}, reuse {}) at the end", seed, memtable, file, block, reuse);
    if let Some(e) = check_state(d, None, &model, &what, &mut r) {
        return Some(e);
    }
    for (i, (s, m)) in snaps.iter().enumerate() {
        if let Some(e) = check_state(d, Some(s), m, &format!("{} at snapshot {}", what, i), &mut r) {
            return Some(e);
        }
    }
    for (s, _) in snaps.drain(..) {
        d.release_snapshot(s);
    }
    d.compact_range(None..None);
    let p = d.layout_audit_for_verif();
    if !p.is_empty() {
        return Some(format!("{}: layout audit: {}", what, p.join(" ; ")));
    }
    let listed: Vec<u64> = d
        .get_descriptor(raindb::db::DatabaseDescriptor::SSTables)
        .map(|s| {
            format!("{:?}", s)
                .split("\\n")
                .filter_map(|l| l.split('(').next().and_then(|n| n.trim().parse::<u64>().ok()))
                .collect()
        })
        .unwrap_or_default();
    let mut listed = listed;
    listed.sort();
    let on_disk = raindb::verif::table_numbers(&o);
    if listed != on_disk {
        return Some(format!("{}: table files on disk {:?}, tables of the current version {:?}", what, on_disk, listed));
    }
    if let Some(e) = check_state(d, None, &model, &format!("{} after the final compaction", what), &mut r) {
        return Some(e);
    }
    None
}

/// Acknowledged writes against a file system on which, from the k-th mutating operation on, everything fails (`sticky`) or exactly one
/// operation fails; afterwards the fault is gone and the database is reopened.
pub fn fault_run(seed: u64, k: usize, sticky: bool, reuse: bool) -> Option<String> {
    let mut r = Lcg(seed);
    let fs = FaultFs::new();
    let mut o = DbOptions::with_memory_env();
    o.filesystem_provider = Arc::new(fs.clone());
    o.db_path = "db".to_string();
    o.create_if_missing = true;
    o.max_memtable_size = 6 * 1024;
    o.max_file_size = 16 * 1024;
    o.reuse_log_files = reuse;
    let what = format!("{} seed {} at file-system operation {} (reuse {})", if sticky { "crash" } else { "transient fault" }, seed, k, reuse);
    // possible[key] = values a reader may legitimately see: the last acknowledged one, plus everything attempted (and refused) since
    let mut possible: BTreeMap<Vec<u8>, Vec<Option<Vec<u8>>>> = BTreeMap::new();
    {
        let db = match DB::open(o.clone()) {
            Ok(d) => d,
            Err(e) => return Some(format!("{}: first open failed: {}", what, e)),
        };
        fn note(possible: &mut BTreeMap<Vec<u8>, Vec<Option<Vec<u8>>>>, k: Vec<u8>, v: Option<Vec<u8>>, ok: bool) {
            let e = possible.entry(k).or_insert_with(|| vec![None]);
            if ok {
                *e = vec![v];
            } else {
                e.push(v);
            }
        }
        for i in 0..120usize {
            if i == 30 {
                fs.arm("", k, sticky);
            }
            let kk = format!("k{:02}", r.below(25)).into_bytes();
            if r.below(5) == 0 {
                let res = db.delete(WriteOptions::default(), kk.clone());
                note(&mut possible, kk, None, res.is_ok());
            } else {
                let v = value(&mut r, false);
                let res = db.put(WriteOptions::default(), kk.clone(), v.clone());
                note(&mut possible, kk, Some(v), res.is_ok());
            }
            if i % 40 == 39 {
                // reads while the database is (possibly) in its failed state: an error is fine, a wrong answer is not
                for (kk, vals) in &possible {
                    match db.get(ReadOptions::default(), kk) {
                        Ok(v) if vals.contains(&Some(v.clone())) => {}
                        Err(raindb::errors::RainDBError::KeyNotFound) if vals.contains(&None) => {}
                        Err(raindb::errors::RainDBError::KeyNotFound) | Ok(_) => {
                            return Some(format!("{}: with the fault active get({}) returns something that was never acknowledged or is older than the last acknowledged write", what, show(kk)));
                        }
                        Err(_) => {}
                    }
                }
            }
        }
        fs.disarm();
        let (tx, rx) = std::sync::mpsc::channel();
        std::thread::spawn(move || {
            drop(db);
            let _ = tx.send(());
        });
        if rx.recv_timeout(std::time::Duration::from_secs(20)).is_err() {
            return Some(format!("{}: closing the database does not return", what));
        }
    }
    for round in 0..2 {
        let db = match DB::open(o.clone()) {
            Ok(d) => d,
            Err(e) => return Some(format!("{}: reopen {} failed: {}", what, round, e)),
        };
        for (kk, vals) in &possible {
            match db.get(ReadOptions::default(), kk) {
                Ok(v) if vals.contains(&Some(v.clone())) => {}
                Err(raindb::errors::RainDBError::KeyNotFound) if vals.contains(&None) => {}
                g => {
                    return Some(format!(
                        "{}: after reopen {} get({}) = {:?}, acceptable: {:?} (an acknowledged write is lost, or something never written is served)",
                        what,
                        round,
                        show(kk),
                        g.map(|v| v.len()).map_err(|e| e.to_string()),
                        vals.iter().map(|v| v.as_ref().map(|x| x.len())).collect::<Vec<_>>()
                    ));
                }
            }
        }
        if round == 0 {
            // the recovered database is fully usable
            for i in 0..40usize {
                let kk = format!("n{:02}", i).into_bytes();
                let v = value(&mut r, false);
                if let Err(e) = db.put(WriteOptions::default(), kk.clone(), v.clone()) {
                    return Some(format!("{}: a write after recovery fails: {}", what, e));
                }
                possible.insert(kk, vec![Some(v)]);
            }
        }
    }
    None
}

fn guarded<F: FnOnce() -> Option<String> + Send + 'static>(secs: u64, what: &str, f: F) -> Option<String> {
    let (tx, rx) = std::sync::mpsc::channel();
    std::thread::spawn(move || {
        let _ = tx.send(f());
    });
    match rx.recv_timeout(std::time::Duration::from_secs(secs)) {
        Ok(r) => r,
        Err(_) => Some(format!("{}: does not finish within {} s (a call hangs or its thread died)", what, secs)),
    }
}

/// (tags, description) of every divergence found. Tags name the properties the section speaks for.
pub fn run() -> Vec<(String, String)> {
    let mut out = vec![];
    let panic_msg: Arc<std::sync::Mutex<Option<String>>> = Arc::new(std::sync::Mutex::new(None));
    let pm = Arc::clone(&panic_msg);
    std::panic::set_hook(Box::new(move |info| {
        let mut g = pm.lock().unwrap();
        if g.is_none() {
            *g = Some(format!("{}", info).replace('\n', " "));
        }
    }));
    let take_panic = |out: &mut Vec<(String, String)>, what: &str| {
        if let Some(m) = panic_msg.lock().unwrap().take() {
            out.push(("C09,C10,C07".to_string(), format!("{}: a thread of the database panicked: {}", what, m)));
        }
    };
    let configs: [(u64, usize, u64, usize, bool, usize); 6] = [
        (1, 4 * 1024 * 1024, 2 * 1024 * 1024, 4096, true, 500),
        (2, 8 * 1024, 16 * 1024, 256, true, 700),
        (3, 8 * 1024, 16 * 1024, 256, false, 700),
        (4, 64 * 1024, 32 * 1024, 1024, true, 500),
        (5, 16 * 1024, 8 * 1024, 64, false, 600),
        (6, 48 * 1024, 64 * 1024, 4096, true, 400),
    ];
    for (seed, mt, fl, bl, reuse, ops) in configs {
        let what = format!("workload seed {}", seed);
        if let Some(e) = guarded(60, &what, move || workload(seed, mt, fl, bl, reuse, ops)) {
            let tags = if e.contains("layout audit") {
                "C10,C07,C02"
            } else if e.contains("table files on disk") {
                "C11"
            } else if e.contains("does not finish") {
                "C09"
            } else {
                "C01,C03,C04,C05,C06,C07,C10,C13,C14,C02,C12"
            };
            out.push((tags.to_string(), e));
        }
        take_panic(&mut out, &what);
    }
    'crash: for reuse in [true, false] {
        for k in 1..=90usize {
            let what = format!("crash at operation {}", k);
            if let Some(e) = guarded(40, &what, move || fault_run(100 + k as u64 % 3, k, true, reuse)) {
                out.push((if e.contains("does not") { "C09,C08" } else { "C02,C08,C16,C11,C12" }.to_string(), e));
                take_panic(&mut out, &what);
                break 'crash;
            }
            take_panic(&mut out, &what);
        }
    }
    'fault: for reuse in [true, false] {
        for k in 1..=90usize {
            let what = format!("transient fault at operation {}", k);
            if let Some(e) = guarded(40, &what, move || fault_run(200 + k as u64 % 3, k, false, reuse)) {
                out.push((if e.contains("does not") { "C09,C08" } else { "C08,C02" }.to_string(), e));
                take_panic(&mut out, &what);
                break 'fault;
            }
            take_panic(&mut out, &what);
        }
    }
    let _ = std::panic::take_hook();
    out
}
