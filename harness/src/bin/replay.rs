//! Native replay of solver counterexamples and witnesses against the real build.
//! usage: replay <command> <args...>; prints `key=value` lines.
use raindb::verif as v;
use rdbv::util::*;

fn main() {
    let args: Vec<String> = std::env::args().skip(1).collect();
    if args.is_empty() {
        eprintln!("usage: replay <command> ...");
        std::process::exit(2);
    }
    let a: Vec<&str> = args.iter().map(|s| s.as_str()).collect();
    match a[0] {
        // key_range smU:smS:lgU:lgS ...
        "key_range" => {
            let files: Vec<((Vec<u8>, u64), (Vec<u8>, u64))> = a[1..]
                .iter()
                .map(|f| {
                    let p: Vec<&str> = f.split(':').collect();
                    ((hex(p[0]), num(p[1])), (hex(p[2]), num(p[3])))
                })
                .collect();
            let r = v::key_range_for_files(&files);
            println!("start={}:{}", tohex(&r.0 .0), r.0 .1);
            println!("end={}:{}", tohex(&r.1 .0), r.1 .1);
        }
        other => {
            eprintln!("unknown command {}", other);
            std::process::exit(2);
        }
    }
}
