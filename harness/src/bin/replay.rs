//! Native replay of solver counterexamples and witnesses against the real build.
//! usage: replay <command> <args...>; prints `key=value` lines.
use raindb::verif as v;
use rdbv::util::*;

fn vfile(s: &str) -> v::VFile {
    let p: Vec<&str> = s.split(':').collect();
    (num(p[0]), num(p[1]), (hex(p[2]), num(p[3])), (hex(p[4]), num(p[5])))
}

fn opts() -> raindb::DbOptions {
    v::options_with(std::sync::Arc::new(raindb::fs::InMemoryFileSystem::new()), 4096)
}

fn main() {
    let args: Vec<String> = std::env::args().skip(1).collect();
    if args.is_empty() {
        eprintln!("usage: replay <command> ...");
        std::process::exit(2);
    }
    let a: Vec<&str> = args.iter().map(|s| s.as_str()).collect();
    match a[0] {
        // key_range smU:smS:lgU:lgS ...
        "key_range" => {
            let files: Vec<((Vec<u8>, u64), (Vec<u8>, u64))> = a[1..]
                .iter()
                .map(|f| {
                    let p: Vec<&str> = f.split(':').collect();
                    ((hex(p[0]), num(p[1])), (hex(p[2]), num(p[3])))
                })
                .collect();
            let r = v::key_range_for_files(&files);
            println!("start={}:{}", tohex(&r.0 .0), r.0 .1);
            println!("end={}:{}", tohex(&r.1 .0), r.1 .1);
        }
        // find_file targetU:targetS num:size:smU:smS:lgU:lgS ...
        "find_file" => {
            let t = key(a[1]);
            let files: Vec<v::VFile> = a[2..].iter().map(|f| vfile(f)).collect();
            match v::find_file(&files, &t) {
                Some(i) => println!("index={}", i),
                None => println!("index=none"),
            }
        }
        "fm_compare" => {
            let f: Vec<v::VFile> = a[1..].iter().map(|f| vfile(f)).collect();
            println!("cmp={},{},{}", v::fm_compare(&f[0], &f[1]), v::fm_compare(&f[1], &f[2]), v::fm_compare(&f[0], &f[2]));
        }
        // overlapping_inputs level begin|- end|- files...
        "overlapping_inputs" => {
            let level = num(a[1]) as usize;
            let b = if a[2] == "none" { None } else { Some(key(a[2])) };
            let e = if a[3] == "none" { None } else { Some(key(a[3])) };
            let files: Vec<v::VFile> = a[4..].iter().map(|f| vfile(f)).collect();
            let r = v::overlapping_inputs_full(opts(), level, &files, b, e);
            println!("files={}", r.iter().map(|x| x.to_string()).collect::<Vec<_>>().join(","));
        }
        other => {
            eprintln!("unknown command {}", other);
            std::process::exit(2);
        }
    }
}
