//! Native replay of solver counterexamples and witnesses against the real build.
//! usage: replay <command> <args...>; prints `key=value` lines.
use raindb::verif as v;
use rdbv::util::*;

fn vfile(s: &str) -> v::VFile {
    let p: Vec<&str> = s.split(':').collect();
    (num(p[0]), num(p[1]), (hex(p[2]), num(p[3])), (hex(p[4]), num(p[5])))
}

/// Build table file 1 from entries `uk:seq:op:vv` laid out in data blocks per `shape` (see the table_get command).
fn build_table(shape: &str, entries: &[&str]) -> Option<raindb::DbOptions> {
    let shape: Vec<usize> = shape.split(',').map(|x| num(x) as usize).collect();
    let fs = std::sync::Arc::new(raindb::fs::InMemoryFileSystem::new());
    let o = v::options_with(fs, 400);
    let mut ends = vec![];
    let mut acc = 0;
    for c in &shape {
        acc += c;
        ends.push(acc - 1);
    }
    let mut owned: Vec<(Vec<u8>, u64, bool, Vec<u8>)> = vec![];
    for (i, e) in entries.iter().enumerate() {
        let p: Vec<&str> = e.split(':').collect();
        let mut val = hex(p[3]);
        if ends.contains(&i) {
            val.resize(420, 0xaa);
        }
        owned.push((hex(p[0]), num(p[1]), p[2] == "1", val));
    }
    let ents: Vec<(&[u8], u64, bool, &[u8])> = owned.iter().map(|e| (e.0.as_slice(), e.1, e.2, e.3.as_slice())).collect();
    if v::table_build(&o, &ents) {
        Some(o)
    } else {
        None
    }
}

fn join(v: &[u64]) -> String {
    v.iter().map(|x| x.to_string()).collect::<Vec<_>>().join(",")
}

/// tokens: `@<level>` starts a level, other tokens are files of the current level
fn levels(toks: &[&str]) -> Vec<(usize, Vec<v::VFile>)> {
    let mut out: Vec<(usize, Vec<v::VFile>)> = vec![];
    for t in toks {
        if let Some(l) = t.strip_prefix('@') {
            out.push((num(l) as usize, vec![]));
        } else {
            out.last_mut().expect("level first").1.push(vfile(t));
        }
    }
    out
}

fn opts() -> raindb::DbOptions {
    v::options_with(std::sync::Arc::new(raindb::fs::InMemoryFileSystem::new()), 4096)
}

fn main() {
    let args: Vec<String> = std::env::args().skip(1).collect();
    if args.is_empty() {
        eprintln!("usage: replay <command> ...");
        std::process::exit(2);
    }
    let a: Vec<&str> = args.iter().map(|s| s.as_str()).collect();
    match a[0] {
        // key_range smU:smS:lgU:lgS ...
        "key_range" => {
            let files: Vec<((Vec<u8>, u64), (Vec<u8>, u64))> = a[1..]
                .iter()
                .map(|f| {
                    let p: Vec<&str> = f.split(':').collect();
                    ((hex(p[0]), num(p[1])), (hex(p[2]), num(p[3])))
                })
                .collect();
            let r = v::key_range_for_files(&files);
            println!("start={}:{}", tohex(&r.0 .0), r.0 .1);
            println!("end={}:{}", tohex(&r.1 .0), r.1 .1);
        }
        // find_file targetU:targetS num:size:smU:smS:lgU:lgS ...
        "find_file" => {
            let t = key(a[1]);
            let files: Vec<v::VFile> = a[2..].iter().map(|f| vfile(f)).collect();
            match v::find_file(&files, &t) {
                Some(i) => println!("index={}", i),
                None => println!("index=none"),
            }
        }
        "fm_compare" => {
            let f: Vec<v::VFile> = a[1..].iter().map(|f| vfile(f)).collect();
            println!("cmp={},{},{}", v::fm_compare(&f[0], &f[1]), v::fm_compare(&f[1], &f[2]), v::fm_compare(&f[0], &f[2]));
        }
        // overlapping_inputs level begin|- end|- files...
        "overlapping_inputs" => {
            let level = num(a[1]) as usize;
            let b = if a[2] == "none" { None } else { Some(key(a[2])) };
            let e = if a[3] == "none" { None } else { Some(key(a[3])) };
            let files: Vec<v::VFile> = a[4..].iter().map(|f| vfile(f)).collect();
            let r = v::overlapping_inputs_full(opts(), level, &files, b, e);
            println!("files={}", r.iter().map(|x| x.to_string()).collect::<Vec<_>>().join(","));
        }
        // add_boundary_inputs chosen(comma idx | -) files...
        "add_boundary_inputs" => {
            let chosen: Vec<usize> = if a[1] == "-" { vec![] } else { a[1].split(',').map(|x| num(x) as usize).collect() };
            let files: Vec<v::VFile> = a[2..].iter().map(|f| vfile(f)).collect();
            let r = v::add_boundary_inputs(&files, &chosen);
            println!("files={}", join(&r));
        }
        // some_file_overlaps disjoint(0|1) smallest|none largest|none files...
        "some_file_overlaps" => {
            let sm = if a[2] == "none" { None } else { Some(hex(a[2])) };
            let lg = if a[3] == "none" { None } else { Some(hex(a[3])) };
            let files: Vec<v::VFile> = a[4..].iter().map(|f| vfile(f)).collect();
            println!("overlaps={}", v::some_file_overlaps_range(a[1] == "1", &files, sm, lg));
        }
        // pick_level maxfilesize smallest largest @level files... @level files...
        "pick_level" => {
            let mut o = opts();
            o.max_file_size = num(a[1]);
            let levels = levels(&a[4..]);
            println!("level={}", v::pick_level_for_memtable_output(o, &levels, &hex(a[2]), &hex(a[3])));
        }
        // base_level compaction_level key,key,... @level files...
        "base_level" => {
            let keys: Vec<(Vec<u8>, u64)> = a[2].split(',').map(|k| key(k)).collect();
            let levels = levels(&a[3..]);
            let r = v::is_base_level_for_keys(opts(), num(a[1]) as usize, &levels, &keys);
            println!("base={}", r.iter().map(|b| if *b { "1" } else { "0" }).collect::<Vec<_>>().join(","));
        }
        // overlapping_files target @level files...
        "overlapping_files" => {
            let levels = levels(&a[2..]);
            let r = v::get_overlapping_files(opts(), &levels, &key(a[1]));
            for (i, l) in r.iter().enumerate() {
                println!("l{}={}", i, join(l));
            }
        }
        // finalize_inputs compaction_level maxfilesize chosen @level files...
        "finalize_inputs" => {
            let mut o = opts();
            o.max_file_size = num(a[2]);
            let chosen: Vec<usize> = a[3].split(',').map(|x| num(x) as usize).collect();
            let levels = levels(&a[4..]);
            let r = v::finalize_compaction_inputs(o, num(a[1]) as usize, &levels, &chosen);
            println!("inputs0={}", join(&r.0));
            println!("inputs1={}", join(&r.1));
            println!("grandparents={}", join(&r.2));
        }
        // snapshot_list op:arg ... : new:i takes a snapshot after the key was overwritten (value "v<i>"), delete:k releases the k-th live
        // snapshot; then the memtable is flushed and the whole key space compacted twice (so that shadowed entries may be dropped);
        // every live snapshot must still read the value it saw
        "snapshot_list" => {
            use raindb::{ReadOptions, WriteOptions};
            let mut o = raindb::DbOptions::with_memory_env();
            o.db_path = "db".to_string();
            o.create_if_missing = true;
            let db = raindb::DB::open(o).expect("open");
            let mut live: Vec<(raindb::Snapshot, String)> = vec![];
            let mut last_val = String::new();
            for (i, t) in a[1..].iter().enumerate() {
                let (name, arg) = t.split_once(':').unwrap();
                if name == "new" {
                    // "new:i:same" = a snapshot of the state the previous snapshot saw (no write in between)
                    let same = arg.ends_with(":same") && !last_val.is_empty();
                    let val = if same { last_val.clone() } else { format!("v{}", i) };
                    if !same { db.put(WriteOptions::default(), b"key".to_vec(), val.clone().into_bytes()).unwrap(); }
                    last_val = val.clone();
                    live.push((db.get_snapshot(), val));
                } else {
                    let (snap, _) = live.remove(arg.parse::<usize>().unwrap());
                    db.release_snapshot(snap);
                }
            }
            // first flush: the versions land in one table at a deeper level; a newer version is then flushed above it and the
            // manual compaction merges the two tables, applying the keep / drop rule with the oldest live snapshot as bound
            db.compact_range(None..None);
            db.put(WriteOptions::default(), b"key".to_vec(), b"latest".to_vec()).unwrap();
            db.compact_range(None..None);
            let (mut wrong, mut first) = (0usize, String::new());
            for (snap, val) in &live {
                let got = db.get(ReadOptions { snapshot: Some(snap.clone()), ..ReadOptions::default() }, b"key").map(|v| String::from_utf8_lossy(&v).to_string()).unwrap_or_else(|e| format!("{:?}", e));
                if &got != val {
                    wrong += 1;
                    if first.is_empty() {
                        first = format!("snapshot of {} reads {}", val, got);
                    }
                }
            }
            println!("live={}", live.len());
            println!("wrong={}", wrong);
            println!("first_wrong={}", first);
        }
        // compaction_bounds_with_snapshot : put a, k; flush to a deep level; snapshot; overwrite k; flush and compact: the output table
        // holds a@1, k@3, k@2 (the snapshot keeps k@2 alive) and must report k@2 as its largest key; the snapshot reads the old value
        "compaction_bounds_with_snapshot" => {
            use raindb::{ReadOptions, WriteOptions};
            let mut o = raindb::DbOptions::with_memory_env();
            o.db_path = "db".to_string();
            o.create_if_missing = true;
            let db = raindb::DB::open(o).expect("open");
            db.put(WriteOptions::default(), b"a".to_vec(), b"va".to_vec()).unwrap();
            db.put(WriteOptions::default(), b"k".to_vec(), b"old".to_vec()).unwrap();
            db.compact_range(None..None);
            let snap = db.get_snapshot();
            db.put(WriteOptions::default(), b"k".to_vec(), b"new".to_vec()).unwrap();
            db.compact_range(None..None);
            let layout: String = db.get_descriptor(raindb::db::DatabaseDescriptor::SSTables).map(|d| format!("{:?}", d)).unwrap_or_default().chars().filter(|c| !c.is_whitespace()).collect();
            let got = db.get(ReadOptions { snapshot: Some(snap.clone()), ..ReadOptions::default() }, b"k").map(|v| String::from_utf8_lossy(&v).to_string()).unwrap_or_else(|e| format!("{:?}", e));
            println!("snapshot_read={}", got);
            // every table that ends with user key k must end with the oldest stored version k@2
            println!("bounds_cover_entries={}", !layout.contains("..k@3:Put]"));
            println!("layout={}", layout.replace("\\n", "|").chars().take(300).collect::<String>());
        }
        // single_key_file_reopen : a table that holds three versions of one user key; the layout the database reports must be the
        // same before the close and after the reopen
        "single_key_file_reopen" => {
            use raindb::WriteOptions;
            let mut o = raindb::DbOptions::with_memory_env();
            o.db_path = "db".to_string();
            o.create_if_missing = true;
            let layout = |db: &raindb::DB| -> String { db.get_descriptor(raindb::db::DatabaseDescriptor::SSTables).map(|d| format!("{:?}", d)).unwrap_or_default().chars().filter(|c| !c.is_whitespace()).collect::<String>().replace("\\n", "|") };
            let before;
            {
                let db = raindb::DB::open(o.clone()).expect("open");
                for val in ["v1", "v2", "v3"] {
                    db.put(WriteOptions::default(), b"k".to_vec(), val.as_bytes().to_vec()).unwrap();
                }
                db.compact_range(None..None);
                before = layout(&db);
            }
            let db = raindb::DB::open(o.clone()).expect("reopen");
            println!("before={}", before);
            println!("after={}", layout(&db));
        }
        // table_cache n1 n2 removed(0|1) : tables n1, n2 and a few neighbours (n ^ 1, n + 1, ...) exist; a fresh table cache is asked for
        // n1, then (after remove(n1) if removed) for n2, then for both again; every answer must be the table with the asked number
        "table_cache" => {
            let (n1, n2, removed) = (num(a[1]), num(a[2]), a[3] == "1");
            let fs = std::sync::Arc::new(raindb::fs::InMemoryFileSystem::new());
            let o = v::options_with(fs, 400);
            let mut numbers: Vec<u64> = vec![n1, n2, n1 ^ 1, n2 ^ 1, n1.wrapping_add(1), n2.wrapping_add(1), n1 / 2, n2 / 2];
            numbers.sort();
            numbers.dedup();
            let lookups = vec![n1, n2, n1, n2, n1 ^ 1, n2 ^ 1];
            let removes: Vec<Vec<u64>> = vec![vec![], if removed { vec![n1] } else { vec![] }];
            match v::table_cache_scenario(&o, &numbers, &lookups, &removes) {
                Some(r) => {
                    println!("asked={}", join(&lookups));
                    println!("got={}", r.iter().map(|x| x.map_or("none".to_string(), |n| n.to_string())).collect::<Vec<_>>().join(","));
                }
                None => println!("got=build-failed"),
            }
        }
        // compact_range_leftovers : two overlapping tables are flushed, the whole key space is compacted, another table is flushed and
        // everything compacted again; afterwards the table files on disk must be exactly the tables of the current version
        "compact_range_leftovers" => {
            use raindb::WriteOptions;
            let mut o = raindb::DbOptions::with_memory_env();
            o.db_path = "db".to_string();
            o.create_if_missing = true;
            let db = raindb::DB::open(o.clone()).expect("open");
            for round in 0..2 {
                for k in ["a", "m", "z"] {
                    db.put(WriteOptions::default(), k.as_bytes().to_vec(), format!("{}{}", k, round).into_bytes()).unwrap();
                }
                let _ = db.flush_for_verif();
            }
            db.compact_range(None..None);
            db.put(WriteOptions::default(), b"m".to_vec(), b"m-last".to_vec()).unwrap();
            db.compact_range(None..None);
            db.put(WriteOptions::default(), b"q".to_vec(), b"q".to_vec()).unwrap();
            let _ = db.flush_for_verif();
            let layout: String = db.get_descriptor(raindb::db::DatabaseDescriptor::SSTables).map(|d| format!("{:?}", d)).unwrap_or_default();
            // table numbers in the layout: "<n>(size:"
            let compact: String = layout.chars().filter(|c| !c.is_whitespace()).collect();
            let parts: Vec<&str> = compact.split("(size:").collect();
            let mut in_version: Vec<u64> = parts[..parts.len().saturating_sub(1)].iter().filter_map(|part| {
                let digits: String = part.chars().rev().take_while(|c| c.is_ascii_digit()).collect::<String>().chars().rev().collect();
                digits.parse::<u64>().ok()
            }).collect();
            in_version.sort();
            let mut on_disk = v::table_numbers(&o);
            on_disk.sort();
            println!("on_disk={}", join(&on_disk));
            println!("in_version={}", join(&in_version));
        }
        // fresh_open_manifests : a new database is opened with reuse_log_files off (the open writes a second manifest); the ordered file
        // operations are recorded: no manifest may be created twice, and CURRENT must never name a manifest that is being rewritten
        "fresh_open_manifests" => {
            let fs = rdbv::faultfs::FaultFs::new();
            let mut o = raindb::DbOptions::with_memory_env();
            o.filesystem_provider = std::sync::Arc::new(fs.clone());
            o.db_path = "db".to_string();
            o.create_if_missing = true;
            o.reuse_log_files = false;
            {
                let _db = raindb::DB::open(o.clone()).expect("open");
            }
            let log = fs.take_log();
            let creates: Vec<String> = log.iter().filter(|l| l.starts_with("create") && l.contains("MANIFEST")).map(|l| l.rsplit('/').next().unwrap_or("").to_string()).collect();
            let mut uniq = creates.clone();
            uniq.sort();
            uniq.dedup();
            println!("manifest_creates={}", creates.join(","));
            println!("created_twice={}", creates.len() != uniq.len());
        }
        // block_cache_collision : two tables share the block cache; cache ids are burnt so that the tables get ids 300 and 301, and the
        // first (incompressible) value of each table is sized so that their second data blocks start at offsets 301 and 300 - each
        // table's id equals the other's block offset. Table 2's second block is read (and cached) first, then table 1's: the second
        // read must return table 1's value
        "block_cache_collision" => {
            let mk = || { let mut o = raindb::DbOptions::with_memory_env(); o.db_path = "db".to_string(); o.max_block_size = 16; o };
            let o = mk();
            let noise = |n: usize, seed: u32| -> Vec<u8> { let mut x = seed; (0..n).map(|_| { x = x.wrapping_mul(1664525).wrapping_add(1013904223); (x >> 24) as u8 }).collect() };
            let mut found = None;
            'search: for la in 250..300usize {
                for lb in 250..300usize {
                    let o2 = mk();
                    let tables = vec![vec![(b"k".to_vec(), 5u64, noise(la, 1)), (b"m".to_vec(), 5, b"from-table-1".to_vec())], vec![(b"k".to_vec(), 5u64, noise(lb, 2)), (b"m".to_vec(), 5, b"from-table-2".to_vec())]];
                    if let Some((_, offs, _)) = v::shared_block_cache_reads(&o2, 0, &tables, &[]) {
                        if offs[0].get(1) == Some(&301) && offs[1].get(1) == Some(&300) {
                            found = Some((la, lb));
                            break 'search;
                        }
                    }
                }
            }
            let (la, lb) = match found { Some(x) => x, None => { println!("setup=no-lengths-found"); return; } };
            let tables = vec![vec![(b"k".to_vec(), 5u64, noise(la, 1)), (b"m".to_vec(), 5, b"from-table-1".to_vec())], vec![(b"k".to_vec(), 5u64, noise(lb, 2)), (b"m".to_vec(), 5, b"from-table-2".to_vec())]];
            // table 1 is opened first (id 300) by a read of its first block, then table 2 (id 301)
            let reads = vec![(0usize, b"k".to_vec(), 9u64), (1, b"m".to_vec(), 9), (0, b"m".to_vec(), 9), (1, b"m".to_vec(), 9)];
            match v::shared_block_cache_reads(&o, 299, &tables, &reads) {
                Some((last, offs, got)) => {
                    println!("setup=ids {} and {}, second blocks at {:?} and {:?}", last + 1, last + 2, offs[0].get(1), offs[1].get(1));
                    println!("table1_m={}", got[2].as_ref().map_or("none".to_string(), |v| String::from_utf8_lossy(v).to_string()));
                    println!("table2_m={}", got[3].as_ref().map_or("none".to_string(), |v| String::from_utf8_lossy(v).to_string()));
                }
                None => println!("setup=failed"),
            }
        }
        // leftover_temp_file : a closed database gets a leftover temporary file (as a crash between writing it and renaming it to CURRENT
        // leaves) and a leftover table file no version refers to; a reopen has to reclaim both
        "leftover_temp_file" => {
            use raindb::WriteOptions;
            let mut o = raindb::DbOptions::with_memory_env();
            o.db_path = "db".to_string();
            o.create_if_missing = true;
            {
                let db = raindb::DB::open(o.clone()).expect("open");
                db.put(WriteOptions::default(), b"k".to_vec(), b"v".to_vec()).unwrap();
            }
            let (tp, tb) = (v::temp_path(&o, 777), v::table_path(&o, 778));
            for p in [&tp, &tb] {
                let mut f = o.filesystem_provider().create_file(p, false).unwrap();
                f.append(b"leftover").unwrap();
            }
            {
                let _db = raindb::DB::open(o.clone()).expect("reopen");
            }
            let exists = |p: &std::path::PathBuf| o.filesystem_provider().open_file(p).is_ok();
            println!("temp_path={}", tp.display());
            println!("temp_left={}", exists(&tp));
            println!("table_left={}", exists(&tb));
        }
        // stale_temp_before_switch : a closed database (manifests are never reused) gets leftover temporary files under every number a
        // following manifest switch could use (what a crash between writing the temp file and renaming it to CURRENT leaves); the
        // reopen switches to a new manifest; CURRENT must then hold exactly one line and the next open must succeed
        "stale_temp_before_switch" => {
            use raindb::WriteOptions;
            let mut o = raindb::DbOptions::with_memory_env();
            o.db_path = "db".to_string();
            o.create_if_missing = true;
            o.reuse_log_files = false;
            {
                let db = raindb::DB::open(o.clone()).expect("open");
                db.put(WriteOptions::default(), b"k".to_vec(), b"v".to_vec()).unwrap();
            }
            for n in 1..40u64 {
                let tp = v::temp_path(&o, n);
                let mut f = o.filesystem_provider().create_file(&tp, false).unwrap();
                f.append(b"MANIFEST-000000.manifest\n").unwrap();
            }
            match raindb::DB::open(o.clone()) {
                Ok(_db) => println!("second_open=ok"),
                Err(e) => println!("second_open=err {}", e),
            }
            let cur = v::manifest_path(&o, 1).parent().unwrap().join("CURRENT");
            let mut text = String::new();
            if let Ok(mut f) = o.filesystem_provider().open_file(&cur) {
                let mut buf = vec![];
                let _ = std::io::Read::read_to_end(&mut f, &mut buf);
                text = String::from_utf8_lossy(&buf).to_string();
            }
            println!("current={}", text.replace('\n', "\\n"));
            println!("current_lines={}", text.matches('\n').count());
            match raindb::DB::open(o.clone()) {
                Ok(db) => {
                    println!("third_open=ok");
                    println!("value={}", db.get(raindb::ReadOptions::default(), b"k").map(|v| String::from_utf8_lossy(&v).to_string()).unwrap_or_else(|e| format!("err {}", e)));
                }
                Err(e) => println!("third_open=err {}", e),
            }
        }
        // filter_policy_sweep : tables of 700 tiny entries in 64-byte blocks, Bloom filters with 1, 10, 30, 43, 44, 50 and 64 bits per key
        // (single filters longer than 2 KiB and filters with the maximal 30 probes among them); every stored key is looked up
        "filter_policy_sweep" => {
            let (mut missing, mut first) = (0usize, String::new());
            for bits in [1usize, 10, 30, 43, 44, 50, 64] {
                let fs = std::sync::Arc::new(raindb::fs::InMemoryFileSystem::new());
                let mut o = v::options_with(fs, 64);
                o.filter_policy = std::sync::Arc::new(raindb::BloomFilterPolicy::new(bits));
                let keys: Vec<Vec<u8>> = (0..700u32).map(|i| format!("k{:04}", i).into_bytes()).collect();
                let ents: Vec<(&[u8], u64, bool, &[u8])> = keys.iter().map(|k| (k.as_slice(), 7u64, true, &b"v"[..])).collect();
                if !v::table_build(&o, &ents) {
                    println!("result=build-failed");
                    return;
                }
                for k in &keys {
                    let (code, _) = v::table_get(&o, k, 100);
                    if code != 0 {
                        missing += 1;
                        if first.is_empty() {
                            first = format!("{} with {} bits per key", String::from_utf8_lossy(k), bits);
                        }
                    }
                }
            }
            // many entries per 2 KiB of (compressed) file with 64 bits per key: single filters of more than 2 KiB that are not the last
            for (block, n) in [(4096usize, 6000u32), (1024, 4000)] {
                let fs = std::sync::Arc::new(raindb::fs::InMemoryFileSystem::new());
                let mut o = v::options_with(fs, block);
                o.filter_policy = std::sync::Arc::new(raindb::BloomFilterPolicy::new(64));
                let keys: Vec<Vec<u8>> = (0..n).map(|i| format!("k{:05}", i).into_bytes()).collect();
                let ents: Vec<(&[u8], u64, bool, &[u8])> = keys.iter().map(|k| (k.as_slice(), 7u64, true, &b""[..])).collect();
                if !v::table_build(&o, &ents) {
                    println!("result=build-failed");
                    return;
                }
                for k in &keys {
                    let (code, _) = v::table_get(&o, k, 100);
                    if code != 0 {
                        missing += 1;
                        if first.is_empty() {
                            first = format!("{} of {} tiny entries, {}-byte blocks, 64 bits per key", String::from_utf8_lossy(k), n, block);
                        }
                    }
                }
            }
            println!("missing={}", missing);
            println!("first_missing={}", first);
        }
        // torn_first_manifest : the directory holds the torn beginning of the first manifest record (1, 6 or 12 of its 13 bytes) and no
        // CURRENT - what a crash during the very first write of a new database leaves. The database must be created anyway, take
        // writes, and open again
        "torn_first_manifest" => {
            use raindb::{ReadOptions, WriteOptions};
            let mut results = vec![];
            for torn in [1usize, 6, 12] {
                let mut o = raindb::DbOptions::with_memory_env();
                o.db_path = "db".to_string();
                o.create_if_missing = true;
                let fsys = o.filesystem_provider();
                let _ = fsys.create_dir_all(std::path::Path::new("db"));
                {
                    let mut f = fsys.create_file(&v::manifest_path(&o, 1), false).unwrap();
                    f.append(&vec![0x5au8; torn]).unwrap();
                }
                let first = match raindb::DB::open(o.clone()) {
                    Ok(db) => { db.put(WriteOptions::default(), b"k".to_vec(), b"v".to_vec()).is_ok() }
                    Err(_) => false,
                };
                let second = match raindb::DB::open(o.clone()) {
                    Ok(db) => db.get(ReadOptions::default(), b"k").map(|v| v == b"v").unwrap_or(false),
                    Err(_) => false,
                };
                results.push(format!("{}:{}:{}", torn, if first { "created" } else { "create-failed" }, if second { "reopened" } else { "reopen-failed" }));
            }
            println!("results={}", results.join(","));
            println!("all_ok={}", results.iter().all(|r| r.ends_with("created:reopened")));
        }
        // grandparent_gap : level 2 holds [a..b] and [y..z], level 1 holds [d..y], level 0 holds [a..e]; compacting everything merges
        // the level-0 and level-1 tables while both level-2 tables are "grandparents"; the first key checked against them (d) lies
        // beyond the first grandparent. compact_range must come back (20 s watchdog) and every value must be intact
        "grandparent_gap" => {
            use raindb::{ReadOptions, WriteOptions};
            let mut o = raindb::DbOptions::with_memory_env();
            o.db_path = "db".to_string();
            o.create_if_missing = true;
            let db = std::sync::Arc::new(raindb::DB::open(o).expect("open"));
            let put = |k: &str, val: &str| db.put(WriteOptions::default(), k.as_bytes().to_vec(), val.as_bytes().to_vec()).unwrap();
            let flush = || db.compact_range(Some("0".as_bytes())..Some("1".as_bytes()));
            put("a", "a-old"); put("b", "b-old"); flush();
            put("y", "y-old"); put("z", "z-old"); flush();
            put("d", "d-mid"); put("y", "y-mid"); flush();
            put("a", "a-new"); put("e", "e-new"); flush();
            let per_level: Vec<String> = (0..4).map(|l| db.get_descriptor(raindb::db::DatabaseDescriptor::NumFilesAtLevel(l)).unwrap_or_default()).collect();
            println!("files_per_level={}", per_level.join(","));
            let (tx, rx) = std::sync::mpsc::channel();
            let db2 = std::sync::Arc::clone(&db);
            std::thread::spawn(move || {
                db2.compact_range(None..None);
                let _ = tx.send(());
            });
            match rx.recv_timeout(std::time::Duration::from_secs(20)) {
                Ok(()) => println!("compact_range=returned"),
                Err(_) => {
                    println!("compact_range=stuck");
                    std::process::exit(0);
                }
            }
            let want = [("a", "a-new"), ("b", "b-old"), ("d", "d-mid"), ("e", "e-new"), ("y", "y-mid"), ("z", "z-old")];
            println!("values_ok={}", want.iter().all(|(k, val)| db.get(ReadOptions::default(), k.as_bytes()).map(|x| x == val.as_bytes()).unwrap_or(false)));
            std::process::exit(0);
        }
        // trivial_move n0 n1 : level 1 holds n0 (1..2) adjacent files which are the chosen inputs, level 2 holds n1 files that
        // overlap them; after the real input finalisation the manifest is asked whether this is a trivial move
        "trivial_move" => {
            let (n0, n1) = (num(a[1]) as usize, num(a[2]) as usize);
            if n0 == 0 {
                println!("trivial=no-scenario");
                return;
            }
            let mk = |n: u64, lo: u8, hi: u8| -> v::VFile { (n, 100, (vec![lo], 9), (vec![hi], 8)) };
            let l1: Vec<v::VFile> = (0..n0).map(|i| mk(10 + i as u64, 10 + 20 * i as u8, 25 + 20 * i as u8)).collect();
            let l2: Vec<v::VFile> = (0..n1).map(|i| mk(20 + i as u64, 12 + 6 * i as u8, 15 + 6 * i as u8)).collect();
            let lv = vec![(1usize, l1), (2usize, l2)];
            let chosen: Vec<usize> = (0..n0).collect();
            let mut o = opts();
            o.max_file_size = 1 << 20;
            let (trivial, i0, i1) = v::trivial_move_decision(o, 1, &lv, &chosen);
            println!("trivial={}", trivial);
            println!("inputs={}+{}", i0, i1);
        }
        // table_iter ops targetU:seq shape uk:seq:op:vv ...
        "table_iter" => {
            let t = key(a[2]);
            let o = match build_table(a[3], &a[4..]) {
                Some(o) => o,
                None => {
                    println!("cursor=build-failed");
                    return;
                }
            };
            let ops: Vec<&str> = a[1].split(',').collect();
            match v::table_iter_cursor(&o, &ops, (&t.0, t.1)) {
                Some(c) => println!(
                    "cursor={}",
                    c.iter()
                        .map(|x| match x {
                            Some((k, s, val)) => format!("{}:{}:{:02x}", tohex(k), s, val),
                            None => "none".to_string(),
                        })
                        .collect::<Vec<_>>()
                        .join(",")
                ),
                None => println!("cursor=open-failed"),
            }
        }
        // block_iter ops targetU:seq uk:seq:op:vv ... : entries written by the real BlockBuilder (restart intervals 1, 2 and 16),
        // parsed by the real BlockReader; its iterator is driven through ops; the reference cursor runs over the entry list
        "block_iter" => {
            let ops: Vec<&str> = a[1].split(',').collect();
            let t = key(a[2]);
            let ents: Vec<(Vec<u8>, u64, bool, u8)> = a[3..].iter().map(|e| { let p: Vec<&str> = e.split(':').collect(); (hex(p[0]), num(p[1]), p[2] == "1", hex(p[3])[0]) }).collect();
            // reference
            let ge = |e: &(Vec<u8>, u64, bool, u8)| e.0.as_slice() > t.0.as_slice() || (e.0 == t.0 && e.1 <= t.1);
            let n = ents.len();
            let mut pos: Option<usize> = None;
            let mut exp: Vec<String> = vec![];
            for o in &ops {
                match *o {
                    "first" => pos = if n > 0 { Some(0) } else { None },
                    "last" => pos = if n > 0 { Some(n - 1) } else { None },
                    "seek" => pos = ents.iter().position(|e| ge(e)),
                    "next" => { if pos.is_none() { break; } pos = pos.and_then(|p| if p + 1 < n { Some(p + 1) } else { None }) }
                    _ => { if pos.is_none() { break; } pos = pos.and_then(|p| if p > 0 { Some(p - 1) } else { None }) }
                }
                exp.push(match pos { Some(p) => format!("{}:{}:{:02x}", tohex(&ents[p].0), ents[p].1, ents[p].3), None => "none".to_string() });
            }
            let mut got_all: Vec<String> = vec![];
            for ri in [1usize, 2, 16] {
                let c = std::panic::catch_unwind(|| v::block_iter_cursor(ri, &ents, &ops, (&t.0, t.1)));
                let got = match c {
                    Ok(Some(c)) => c.iter().map(|x| match x { Some((k, s, val)) => format!("{}:{}:{:02x}", tohex(k), s, val), None => "none".to_string() }).collect::<Vec<_>>().join(","),
                    Ok(None) => "unreadable".to_string(),
                    Err(_) => "panicked".to_string(),
                };
                got_all.push(got);
            }
            let e = exp.join(",");
            let bad = got_all.iter().find(|g| **g != e).cloned();
            println!("cursor={}", bad.unwrap_or_else(|| e.clone()));
            println!("expected={}", e);
        }
        // table_seek_corrupt bad_block targetU:seq shape uk:seq:op:vv ... : one byte of data block `bad_block` is flipped on disk
        "table_seek_corrupt" => {
            let bad = num(a[1]) as usize;
            let t = key(a[2]);
            let o = match build_table(a[3], &a[4..]) {
                Some(o) => o,
                None => {
                    println!("result=build-failed");
                    return;
                }
            };
            let handles = v::table_block_handles(&o).expect("handles");
            println!("blocks={}", handles.len());
            let path = std::path::PathBuf::from(o.db_path()).join("data").join("1.rdb");
            let fsys = o.filesystem_provider();
            let paths = fsys.list_dir(std::path::Path::new(o.db_path())).unwrap_or_default();
            let _ = path;
            // locate the table file
            let mut tpath = None;
            for p in fsys.list_dir(&std::path::PathBuf::from(o.db_path()).join("data")).unwrap_or(paths) {
                if p.to_string_lossy().ends_with(".rdb") {
                    tpath = Some(p);
                }
            }
            let tpath = tpath.expect("table file");
            let f = fsys.open_file(&tpath).unwrap();
            let len = f.len().unwrap() as usize;
            let mut bytes = vec![0u8; len];
            f.read_from(&mut bytes, 0).unwrap();
            let (off, size) = handles[bad];
            bytes[(off + size / 2) as usize] ^= 0x40;
            {
                let mut w = fsys.create_file(&tpath, false).unwrap();
                w.append(&bytes).unwrap();
            }
            match v::table_iter_seek_twice(&o, (&t.0, t.1)) {
                Some((e1, e2, cur)) => {
                    println!("first_seek={}", if e1 { "err" } else { "ok" });
                    println!("second_seek={}", if e2 { "err" } else { "ok" });
                    println!("cursor={}", cur.map(|(k, s)| format!("{}:{}", tohex(&k), s)).unwrap_or("none".to_string()));
                }
                None => println!("result=open-failed"),
            }
        }
        // table_filter_sweep : tables of 300 keys with 512-byte blocks and value lengths 1..=48; every stored key must be found
        "table_filter_sweep" => {
            let mut missing = 0usize;
            let mut first = String::new();
            for vlen in 1..=48usize {
                let fs = std::sync::Arc::new(raindb::fs::InMemoryFileSystem::new());
                let o = v::options_with(fs, 512);
                let keys: Vec<Vec<u8>> = (0..300u32).map(|i| format!("key{:06}", i).into_bytes()).collect();
                let val = vec![b'v'; vlen];
                let ents: Vec<(&[u8], u64, bool, &[u8])> = keys.iter().map(|k| (k.as_slice(), 7u64, true, val.as_slice())).collect();
                if !v::table_build(&o, &ents) {
                    println!("result=build-failed");
                    return;
                }
                for k in &keys {
                    let (code, _) = v::table_get(&o, k, 100);
                    if code != 0 {
                        missing += 1;
                        if first.is_empty() {
                            first = format!("{} (value length {})", String::from_utf8_lossy(k), vlen);
                        }
                    }
                }
            }
            println!("missing={}", missing);
            println!("first_missing={}", first);
        }
        // filter_block_offsets <offset> : a filter block is built for data blocks starting at 0, <offset> and <offset> + 4113 (three
        // distinct keys each, Bloom policy) in the order the table builder uses; the reader is then asked for every key with the
        // offset of its block
        "filter_block_offsets" => {
            let off = num(a[1]) as usize;
            let blocks: Vec<(usize, Vec<Vec<u8>>)> = [0usize, off, off + 4113]
                .iter()
                .enumerate()
                .map(|(i, o)| (*o, (0..3u8).map(|j| format!("block{}-key{}-{}", i, j, o).into_bytes()).collect()))
                .collect();
            let policy: std::sync::Arc<dyn raindb::FilterPolicy> = std::sync::Arc::new(raindb::BloomFilterPolicy::new(10));
            match v::filter_block_answers(policy, &blocks) {
                Some(ans) => {
                    println!("answers={}", ans.len());
                    println!("rejected={}", ans.iter().filter(|x| !**x).count());
                    println!("first_rejected={}", ans.iter().position(|x| !*x).map_or(String::new(), |p| format!("key {} of block {}", p % 3, p / 3)));
                }
                None => println!("answers=unreadable"),
            }
        }
        // table_get targetU:seq shape(c,c,..) uk:seq:op:vv ...   (entries in sorted order; blocks per shape)
        "table_get" => {
            let t = key(a[1]);
            let shape: Vec<usize> = a[2].split(',').map(|x| num(x) as usize).collect();
            let fs = std::sync::Arc::new(raindb::fs::InMemoryFileSystem::new());
            // a data block is flushed once its size estimate reaches max_block_size: the last entry of each
            // block gets a value long enough to cross the threshold, all others stay far below it
            let o = v::options_with(fs, 400);
            let mut ends = vec![];
            let mut acc = 0;
            for c in &shape {
                acc += c;
                ends.push(acc - 1);
            }
            let mut owned: Vec<(Vec<u8>, u64, bool, Vec<u8>)> = vec![];
            for (i, e) in a[3..].iter().enumerate() {
                let p: Vec<&str> = e.split(':').collect();
                let mut val = hex(p[3]);
                if ends.contains(&i) {
                    val.resize(420, 0xaa);
                }
                owned.push((hex(p[0]), num(p[1]), p[2] == "1", val));
            }
            let ents: Vec<(&[u8], u64, bool, &[u8])> = owned.iter().map(|e| (e.0.as_slice(), e.1, e.2, e.3.as_slice())).collect();
            if !v::table_build(&o, &ents) {
                println!("result=build-failed");
                return;
            }
            let (code, val) = v::table_get(&o, &t.0, t.1);
            let names = ["Ok(Some)", "Ok(None)", "Err(KeyNotFound)", "Err(other)"];
            println!("result={}", names[code as usize]);
            println!("value={}", if val.is_empty() { "-".to_string() } else { tohex(&val[..1]) });
        }
        // version_builder @level files... --delete level:number ... --add @level files...
        "version_builder" => {
            let mut base_toks: Vec<&str> = vec![];
            let mut del: Vec<(usize, u64)> = vec![];
            let mut add_toks: Vec<&str> = vec![];
            let mut mode = 0;
            for t in &a[1..] {
                match *t {
                    "--delete" => mode = 1,
                    "--add" => mode = 2,
                    _ => match mode {
                        0 => base_toks.push(*t),
                        1 => {
                            let p: Vec<&str> = t.split(':').collect();
                            del.push((num(p[0]) as usize, num(p[1])));
                        }
                        _ => add_toks.push(*t),
                    },
                }
            }
            std::panic::set_hook(Box::new(|_| {}));
            match v::version_builder_apply(opts(), &levels(&base_toks), &del, &levels(&add_toks)) {
                Ok(lv) => {
                    println!("panicked=false");
                    for (i, l) in lv.iter().enumerate() {
                        println!("l{}={}", i, join(l));
                    }
                }
                Err(msg) => {
                    println!("panicked=true");
                    println!("panic_message={}", msg.replace('=', ":"));
                }
            }
        }
        // version_builder_edits @level files... {--edit --delete l:n ... --add @level files...}* : several edits accumulated on one
        // builder (manifest replay), then applied to the base version
        "version_builder_edits" => {
            let mut base_toks: Vec<&str> = vec![];
            let mut edits: Vec<(Vec<(usize, u64)>, Vec<&str>)> = vec![];
            let mut mode = 0;
            for t in &a[1..] {
                match *t {
                    "--edit" => { edits.push((vec![], vec![])); mode = 3; }
                    "--delete" => mode = 1,
                    "--add" => mode = 2,
                    _ => match mode {
                        0 => base_toks.push(*t),
                        1 => {
                            let p: Vec<&str> = t.split(':').collect();
                            edits.last_mut().unwrap().0.push((num(p[0]) as usize, num(p[1])));
                        }
                        2 => edits.last_mut().unwrap().1.push(*t),
                        _ => {}
                    },
                }
            }
            let edits: Vec<(Vec<(usize, u64)>, Vec<(usize, Vec<v::VFile>)>)> = edits.into_iter().map(|(d, toks)| (d, levels(&toks))).collect();
            std::panic::set_hook(Box::new(|_| {}));
            match v::version_builder_apply_edits(opts(), &levels(&base_toks), &edits) {
                Ok(lv) => {
                    println!("panicked=false");
                    for (i, l) in lv.iter().enumerate() {
                        println!("l{}={}", i, join(l));
                    }
                }
                Err(msg) => {
                    println!("panicked=true");
                    println!("panic_message={}", msg.replace('=', ":"));
                }
            }
        }
        // remove_obsolete vs_curr_wal vs_prev_wal|none field_curr_wal live in_use bad(0|1) dir:kind:number ...
        "remove_obsolete" => {
            let prev = if a[2] == "none" { None } else { Some(num(a[2])) };
            let mut files: Vec<(String, u64)> = vec![];
            for t in &a[7..] {
                let p: Vec<&str> = t.split(':').collect();
                let ok = matches!((p[0], p[1]), ("wal", "WriteAheadLog") | ("data", "TableFile") | ("main", "ManifestFile") | ("main", "TempFile"));
                if ok {
                    files.push((p[1].to_string(), num(p[2])));
                }
            }
            let mut o = opts();
            o.db_path = "db".to_string();
            let (mf, remaining) = v::remove_obsolete_scenario(o, num(a[1]), prev, num(a[3]), num(a[4]), num(a[5]), a[6] == "1", &files);
            println!("manifest_number={}", mf);
            println!("remaining={}", remaining.join(","));
        }
        // pick_compaction size|seek level file_index pointer|none @level files...
        "pick_compaction" => {
            let level = num(a[2]) as usize;
            let idx = num(a[3]) as usize;
            let ptr = if a[4] == "none" { None } else { Some((level, key(a[4]))) };
            let lv = levels(&a[5..]);
            let r = if a[1] == "seek" {
                v::pick_compaction_scenario(opts(), &lv, Some((level, idx)), None, ptr)
            } else {
                v::pick_compaction_scenario(opts(), &lv, None, Some(level), ptr)
            };
            match r {
                Some((l, i0, i1)) => {
                    println!("level={}", l);
                    println!("inputs0={}", join(&i0));
                    println!("inputs1={}", join(&i1));
                }
                None => println!("level=none"),
            }
        }
        // size_compaction_level <level-0 file count> <sizes level 1|-> ... <sizes level 6|-> : a version with files of these sizes is
        // installed through log_and_apply (which finalizes it); then VersionSet::pick_compaction is asked for the next compaction
        "size_compaction_level" => {
            let n0 = num(a[1]) as usize;
            let mut lv: Vec<(usize, Vec<v::VFile>)> = vec![];
            let mut number = 10u64;
            let l0: Vec<v::VFile> = (0..n0).map(|i| { number += 1; (number, 1000, (vec![b'a' + i as u8], 9), (vec![b'b' + i as u8], 8)) }).collect();
            lv.push((0, l0));
            for level in 1..=6usize {
                let mut files: Vec<v::VFile> = vec![];
                if a[1 + level] != "-" {
                    for (i, sz) in a[1 + level].split(',').enumerate() {
                        number += 1;
                        files.push((number, sz.parse::<u64>().unwrap(), (vec![b'a' + 2 * i as u8], 9), (vec![b'a' + 2 * i as u8 + 1], 8)));
                    }
                }
                lv.push((level, files));
            }
            let (required, level, files_at) = v::size_compaction_state(opts(), &lv);
            println!("required={}", required);
            println!("level={}", level);
            println!("files_at_level={}", files_at);
            let lv2 = lv.clone();
            let picked = std::panic::catch_unwind(move || v::pick_compaction_scenario(opts(), &lv2, None, None, None));
            println!("pick={}", match picked { Ok(Some((l, _, _))) => format!("level {}", l), Ok(None) => "none".to_string(), Err(_) => "panicked".to_string() });
        }
        // live_files : files at levels 0, 3 and 6; does get_live_files report all of them?
        "live_files" => {
            let mk = |n: u64, k: u8| -> v::VFile { (n, 100, (vec![k], 9), (vec![k + 1], 8)) };
            let lv = vec![(0usize, vec![mk(10, 1)]), (3usize, vec![mk(13, 10)]), (6usize, vec![mk(16, 20)])];
            let (installed, live) = v::vset_live_files(opts(), &lv);
            println!("installed={}", join(&installed));
            println!("live={}", join(&live));
        }
        // snapshot_roundtrip @level files...
        "snapshot_roundtrip" => {
            let lv = levels(&a[1..]);
            let (before, after, ok) = v::vset_snapshot_roundtrip(opts(), &lv);
            println!("recover_ok={}", ok);
            println!("original={}", before.join("|"));
            println!("recovered={}", after.join("|"));
        }
        // log_and_apply_fault created|reused : the manifest append of the edit fails; what does log_and_apply report?
        "log_and_apply_fault" => {
            let mut shown = false;
            for k in 1..=4usize {
                let fs = rdbv::faultfs::FaultFs::new();
                let o = v::options_with(std::sync::Arc::new(fs.clone()), 4096);
                let f2 = fs.clone();
                // optional: a[2] = path fragment whose k-th mutating operation fails (default "manifest"), a[3] = once | sticky
                let frag = if a.len() > 2 { a[2].to_string() } else { "manifest".to_string() };
                let sticky = !(a.len() > 3 && a[3] == "once");
                let (ok, installed) = v::vset_log_and_apply_edit(o, a[1] == "created", 77, &move || f2.arm(&frag, k, sticky));
                let failed = fs.failures() > 0;
                println!("try{}=result:{} installed:{} append_failed:{}", k, if ok { "Ok" } else { "Err" }, installed, failed);
                if failed && ok && !shown {
                    shown = true;
                    println!("result=Ok");
                    println!("installed={}", installed);
                    println!("append_failed=true");
                }
            }
            if !shown {
                println!("result=Err");
                println!("installed=false");
                println!("append_failed=true");
            }
        }
        // log_write start_offset record_len : append one record to a file that already holds start_offset bytes; dump what was written
        "log_write" => {
            let fs: std::sync::Arc<dyn raindb::fs::FileSystem> = std::sync::Arc::new(raindb::fs::InMemoryFileSystem::new());
            let path = std::path::PathBuf::from("wal-1.log");
            let p = num(a[1]) as usize;
            let n = num(a[2]) as usize;
            {
                let mut f = fs.create_file(&path, false).unwrap();
                f.append(&vec![0u8; p]).unwrap();
            }
            let mut w = v::VLogWriter::new(std::sync::Arc::clone(&fs), &path, true).unwrap();
            let rec: Vec<u8> = (0..n).map(|i| (i % 251) as u8 + 1).collect();
            let ok = w.append(&rec).is_ok();
            println!("append_ok={}", ok);
            let f = fs.open_file(&path).unwrap();
            let len = f.len().unwrap() as usize;
            let mut buf = vec![0u8; len];
            f.read_from(&mut buf, 0).unwrap();
            // parse the bytes after the prefix
            let mut pos = p;
            let mut trailer = 0usize;
            if 32768 - (p % 32768) < 7 {
                trailer = 32768 - (p % 32768);
                pos += trailer;
            }
            let mut frs = vec![];
            let mut parse_ok = buf[p..pos].iter().all(|b| *b == 0);
            let mut got = 0usize;
            while pos + 7 <= len {
                let l = buf[pos + 4] as usize | ((buf[pos + 5] as usize) << 8);
                let t = buf[pos + 6];
                if pos + 7 + l > len {
                    parse_ok = false;
                    break;
                }
                for i in 0..l {
                    if buf[pos + 7 + i] != rec[got + i] {
                        parse_ok = false;
                    }
                }
                if (pos % 32768) + 7 + l > 32768 {
                    parse_ok = false;
                }
                got += l;
                frs.push(format!("{}:{}", t, l));
                pos += 7 + l;
                if 32768 - (pos % 32768) < 7 && pos < len {
                    pos += 32768 - (pos % 32768);
                }
            }
            if pos != len || got != n {
                parse_ok = false;
            }
            println!("trailer={}", trailer);
            println!("fragments={}", frs.join(","));
            println!("parse_ok={}", parse_ok);
        }
        // log_scenario steps...  A<len> append a record | K<bytes> keep the first <bytes> bytes and reopen the writer | X<offset> flip a byte
        "log_scenario" => {
            let fs: std::sync::Arc<dyn raindb::fs::FileSystem> = std::sync::Arc::new(raindb::fs::InMemoryFileSystem::new());
            let path = std::path::PathBuf::from("wal-1.log");
            let read_all = |fs: &std::sync::Arc<dyn raindb::fs::FileSystem>| -> Vec<u8> {
                let f = fs.open_file(&path).unwrap();
                let len = f.len().unwrap() as usize;
                let mut buf = vec![0u8; len];
                if len > 0 {
                    f.read_from(&mut buf, 0).unwrap();
                }
                buf
            };
            let rewrite = |fs: &std::sync::Arc<dyn raindb::fs::FileSystem>, bytes: &[u8]| {
                let mut f = fs.create_file(&path, false).unwrap();
                if !bytes.is_empty() {
                    f.append(bytes).unwrap();
                }
            };
            // The in-memory file shares one cursor between all handles, so the file is never inspected while a
            // writer is alive: every step opens its own writer in append mode (its block offset is len % 32768,
            // the same value a continuing writer holds).
            { let _ = v::VLogWriter::new(std::sync::Arc::clone(&fs), &path, false).unwrap(); }
            let mut records: Vec<(Vec<u8>, usize, usize, bool)> = vec![]; // content, start, end, intact
            for st in &a[1..] {
                let (op, arg) = st.split_at(1);
                let n = num(arg) as usize;
                match op {
                    "A" => {
                        let k = records.len();
                        let rec: Vec<u8> = (0..n).map(|j| ((k * 37 + j * 7 + 1) % 251) as u8).collect();
                        let start = read_all(&fs).len();
                        let ok = {
                            let mut w = v::VLogWriter::new(std::sync::Arc::clone(&fs), &path, true).unwrap();
                            w.append(&rec).is_ok()
                        };
                        let end = read_all(&fs).len();
                        records.push((rec, start, end, ok));
                    }
                    "K" => {
                        let bytes = read_all(&fs);
                        let keep = n.min(bytes.len());
                        rewrite(&fs, &bytes[..keep]);
                        for r in records.iter_mut() {
                            if r.2 > keep {
                                r.3 = false;
                            }
                        }
                    }
                    "X" => {
                        let mut bytes = read_all(&fs);
                        if n < bytes.len() {
                            bytes[n] ^= 0x5a;
                            rewrite(&fs, &bytes);
                            for r in records.iter_mut() {
                                if r.1 <= n && n < r.2 {
                                    r.3 = false;
                                }
                            }
                        }
                    }
                    _ => panic!("bad step"),
                }
            }
            println!("file_len={}", read_all(&fs).len());
            let expected: Vec<String> = records.iter().enumerate().filter(|(_, r)| r.3).map(|(i, _)| i.to_string()).collect();
            println!("expected={}", expected.join(","));
            let mut reader = v::VLogReader::new(std::sync::Arc::clone(&fs), &path).unwrap();
            let mut got = vec![];
            let mut end = "more";
            for _ in 0..(records.len() + 3) {
                match reader.read_record() {
                    Ok((_, true)) => {
                        end = "eof";
                        break;
                    }
                    Ok((data, false)) => {
                        let id = records.iter().position(|r| r.0 == data).map(|i| i as i64).unwrap_or(-1);
                        got.push(format!("{}", id));
                    }
                    Err(_) => {
                        end = "err";
                        break;
                    }
                }
            }
            println!("returned={}", got.join(","));
            println!("end={}", end);
        }
        // merge_iter ops(comma) targetU:seq child child ...   child = uk:seq:op:vv/uk:seq:op:vv or -
        "merge_iter" => {
            let t = key(a[2]);
            let mut children = vec![];
            for c in &a[3..] {
                let mut ents: Vec<(Vec<u8>, u64, bool, u8)> = vec![];
                if *c != "-" {
                    for e in c.split('/') {
                        let p: Vec<&str> = e.split(':').collect();
                        ents.push((hex(p[0]), num(p[1]), p[2] == "1", hex(p[3])[0]));
                    }
                }
                children.push(v::VecIter::new_full(&ents));
            }
            let mut m = v::VMerge::new(children);
            let mut out = vec![];
            for op in a[1].split(',') {
                match op {
                    "first" => m.first(),
                    "last" => m.last(),
                    "seek" => m.seek_key(&t.0, t.1),
                    "next" => {
                        if !m.valid() {
                            break;
                        }
                        m.next()
                    }
                    "prev" => {
                        if !m.valid() {
                            break;
                        }
                        m.prev()
                    }
                    _ => panic!("op"),
                }
                out.push(match m.current_full() {
                    Some((k, s, val)) => format!("{}:{}:{:02x}", tohex(&k), s, val),
                    None => "none".to_string(),
                });
            }
            println!("cursor={}", out.join(","));
        }
        // db_scenario [O<memtable>,<filesize>,<blocksize>,<reuse 0|1>] steps...
        //   P<key>=<val> put | D<key> delete | F flush memtable | S take snapshot | C compact everything | c<lo>-<hi> compact range
        //   R close and reopen | G<key>[@<snap>] get | I[@<snap>] forward scan | J[@<snap>] backward scan | T print table layout
        "db_scenario" => {
            use raindb::{ReadOptions, WriteOptions, RainDbIterator};
            let mut o = raindb::DbOptions::with_memory_env();
            o.db_path = "db".to_string();
            o.create_if_missing = true;
            o.max_memtable_size = 4 * 1024 * 1024;
            o.max_file_size = 2 * 1024 * 1024;
            let mut steps = &a[1..];
            if !steps.is_empty() && steps[0].starts_with('O') {
                let p: Vec<&str> = steps[0][1..].split(',').collect();
                o.max_memtable_size = num(p[0]) as usize;
                o.max_file_size = num(p[1]);
                o.max_block_size = num(p[2]) as usize;
                o.reuse_log_files = p[3] == "1";
                steps = &steps[1..];
            }
            let mut db = Some(raindb::DB::open(o.clone()).expect("open"));
            let mut snaps: Vec<raindb::Snapshot> = vec![];
            let ro = |snaps: &Vec<raindb::Snapshot>, spec: &str| -> ReadOptions {
                match spec.split('@').nth(1) {
                    Some(i) => ReadOptions { fill_cache: true, snapshot: Some(snaps[num(i) as usize].clone()) },
                    None => ReadOptions::default(),
                }
            };
            for (n, st) in steps.iter().enumerate() {
                let (op, arg) = st.split_at(1);
                let d = db.as_ref().unwrap();
                match op {
                    "P" => {
                        let kv: Vec<&str> = arg.split('=').collect();
                        let r = d.put(WriteOptions::default(), hex(kv[0]), hex(kv[1]));
                        println!("step{}={}", n, if r.is_ok() { "ok" } else { "err" });
                    }
                    "B" => {
                        // B<k>=<v>+<k>=<v>... : one batch of puts
                        let mut b = raindb::Batch::new();
                        for kv in arg.split('+') {
                            let p: Vec<&str> = kv.split('=').collect();
                            b.add_put(hex(p[0]), hex(p[1]));
                        }
                        let r = d.apply(WriteOptions::default(), b);
                        println!("step{}={}", n, if r.is_ok() { "ok" } else { "err" });
                    }
                    "D" => {
                        let r = d.delete(WriteOptions::default(), hex(arg));
                        println!("step{}={}", n, if r.is_ok() { "ok" } else { "err" });
                    }
                    "F" => println!("step{}={}", n, if d.flush_for_verif() { "ok" } else { "err" }),
                    // A : audit of the table layout against the table files (bounds = first / last stored entry, order, disjointness)
                    "A" => {
                        let p = d.layout_audit_for_verif();
                        println!("step{}=audit:{}", n, if p.is_empty() { "ok".to_string() } else { p.join(" ; ").replace('=', ":") });
                    }
                    "S" => {
                        snaps.push(d.get_snapshot());
                        println!("step{}=ok", n);
                    }
                    "C" => {
                        d.compact_range(None..None);
                        println!("step{}=ok", n);
                    }
                    "c" => {
                        let lh: Vec<&str> = arg.split('-').collect();
                        let (lo, hi) = (hex(lh[0]), hex(lh[1]));
                        d.compact_range(Some(lo.as_slice())..Some(hi.as_slice()));
                        println!("step{}=ok", n);
                    }
                    "R" => {
                        snaps.clear();
                        db = None;
                        db = Some(raindb::DB::open(o.clone()).expect("reopen"));
                        println!("step{}=ok", n);
                    }
                    "G" => {
                        let k = hex(arg.split('@').next().unwrap());
                        let r = d.get(ro(&snaps, arg), &k);
                        println!(
                            "step{}={}",
                            n,
                            match r {
                                Ok(val) => format!("val:{}", tohex(&val)),
                                Err(raindb::RainDBError::KeyNotFound) => "notfound".to_string(),
                                Err(e) => format!("err:{:?}", e).replace('=', ":"),
                            }
                        );
                    }
                    "I" | "J" => {
                        let mut it = d.new_iterator(ro(&snaps, arg)).expect("iterator");
                        let mut out = vec![];
                        if op == "I" {
                            let _ = it.seek_to_first();
                        } else {
                            let _ = it.seek_to_last();
                        }
                        let mut guard = 0;
                        while it.is_valid() && guard < 10000 {
                            let (k, val) = it.current().unwrap();
                            out.push(format!("{}:{}", tohex(k), tohex(val)));
                            if op == "I" {
                                it.next();
                            } else {
                                it.prev();
                            }
                            guard += 1;
                        }
                        println!("step{}=scan:{}", n, out.join(","));
                    }
                    "U" => {
                        // U<op.op.op>:<targethex>[@snap] : cursor pattern on a fresh iterator
                        let spec = arg.split('@').next().unwrap();
                        let sp: Vec<&str> = spec.split(':').collect();
                        let target = hex(sp[1]);
                        let mut it = d.new_iterator(ro(&snaps, arg)).expect("iterator");
                        let mut out = vec![];
                        for o in sp[0].split('.') {
                            match o {
                                "first" => {
                                    let _ = it.seek_to_first();
                                }
                                "last" => {
                                    let _ = it.seek_to_last();
                                }
                                "seek" => {
                                    let _ = it.seek(&target);
                                }
                                "next" => {
                                    if !it.is_valid() {
                                        break;
                                    }
                                    it.next();
                                }
                                "prev" => {
                                    if !it.is_valid() {
                                        break;
                                    }
                                    it.prev();
                                }
                                _ => panic!("bad cursor op"),
                            }
                            out.push(if it.is_valid() {
                                let (k, val) = it.current().unwrap();
                                format!("{}:{}", tohex(k), tohex(val))
                            } else {
                                "none".to_string()
                            });
                        }
                        println!("step{}=cursor:{}", n, out.join(","));
                    }
                    "T" => {
                        let r = d.get_descriptor(raindb::db::DatabaseDescriptor::SSTables).unwrap_or_default();
                        println!("step{}=layout:{}", n, r.replace('\n', ";").replace('=', ":"));
                    }
                    _ => panic!("bad step {}", st),
                }
            }
            drop(snaps);
            drop(db);
        }
        // write_fault wal|room : a put whose write-ahead-log append fails, then a second put against the failed database
        "write_fault" => {
            use raindb::{ReadOptions, WriteOptions};
            let fs = rdbv::faultfs::FaultFs::new();
            let mut o = raindb::DbOptions::with_memory_env();
            o.filesystem_provider = std::sync::Arc::new(fs.clone());
            o.db_path = "db".to_string();
            o.create_if_missing = true;
            let db = raindb::DB::open(o).expect("open");
            let _ = db.put(WriteOptions::default(), b"a".to_vec(), b"1".to_vec());
            fs.arm("wal", 1, true);
            let r1 = db.put(WriteOptions::default(), b"k".to_vec(), b"v".to_vec());
            println!("put_result={}", if r1.is_ok() { "Ok" } else { "Err" });
            println!("fault_hit={}", fs.failures() > 0);
            let g = db.get(ReadOptions::default(), b"k");
            println!("get_after={}", if g.is_ok() { "found" } else { "missing" });
            if a.len() > 1 && a[1] == "wal_once" {
                // a transient fault: the file system works again, the database must still refuse (the log has a hole)
                fs.disarm();
            }
            let r2 = db.put(WriteOptions::default(), b"k2".to_vec(), b"v2".to_vec());
            println!("second_put_result={}", if r2.is_ok() { "Ok" } else { "Err" });
            fs.disarm();
        }
        // sched_batch_visibility : a reader runs to completion while a two-key batch is half way into the memtable
        "sched_batch_visibility" => {
            use raindb::{ReadOptions, WriteOptions};
            let mut o = raindb::DbOptions::with_memory_env();
            o.db_path = "db".to_string();
            o.create_if_missing = true;
            let db = std::sync::Arc::new(raindb::DB::open(o).expect("open"));
            db.put(WriteOptions::default(), b"k1".to_vec(), b"a".to_vec()).unwrap();
            db.put(WriteOptions::default(), b"k2".to_vec(), b"a".to_vec()).unwrap();
            let seen: std::sync::Arc<std::sync::Mutex<Vec<String>>> = Default::default();
            let (db2, seen2) = (std::sync::Arc::clone(&db), std::sync::Arc::clone(&seen));
            let plain = a.len() > 1 && a[1] == "plain";
            v::set_sched_hook(Some(std::sync::Arc::new(move |name: &str| {
                if name == "memtable.after_insert" && seen2.lock().unwrap().is_empty() {
                    // one consistent view: a snapshot, then both keys at that snapshot (mode "snapshot"),
                    // or two plain gets issued while the writer is paused (mode "plain": k2 first, then k1)
                    let snap = db2.get_snapshot();
                    let r = |k: &[u8]| {
                        let ro = if plain { ReadOptions::default() } else { ReadOptions { fill_cache: true, snapshot: Some(snap.clone()) } };
                        db2.get(ro, k).map(|x| String::from_utf8_lossy(&x).to_string()).unwrap_or_else(|_| "none".to_string())
                    };
                    let b = r(b"k2");
                    let a = r(b"k1");
                    seen2.lock().unwrap().push(format!("{},{}", a, b));
                    db2.release_snapshot(snap);
                }
            })));
            let mut b = raindb::Batch::new();
            b.add_put(b"k1".to_vec(), b"b".to_vec());
            b.add_put(b"k2".to_vec(), b"b".to_vec());
            db.apply(WriteOptions::default(), b).unwrap();
            v::set_sched_hook(None);
            let s = seen.lock().unwrap().first().cloned().unwrap_or_default();
            println!("observed={}", s);
            let p: Vec<&str> = s.split(',').collect();
            println!("partial={}", p.len() == 2 && p[0] != p[1]);
        }
        // flush_fault table|manifest : a memtable flush whose table-file creation / manifest append fails once
        "flush_fault" => {
            use raindb::{ReadOptions, WriteOptions};
            let fs = rdbv::faultfs::FaultFs::new();
            let mut o = raindb::DbOptions::with_memory_env();
            o.filesystem_provider = std::sync::Arc::new(fs.clone());
            o.db_path = "db".to_string();
            o.create_if_missing = true;
            let get = |db: &raindb::DB| match db.get(ReadOptions::default(), b"k") {
                Ok(x) => String::from_utf8_lossy(&x).to_string(),
                Err(_) => "notfound".to_string(),
            };
            {
                let db = raindb::DB::open(o.clone()).expect("open");
                db.put(WriteOptions::default(), b"k".to_vec(), b"v".to_vec()).unwrap();
                fs.arm(if a[1] == "table" { ".rdb" } else { "manifest" }, 1, false);
                let _ = db.flush_for_verif();
                println!("fault_hit={}", fs.failures() > 0);
                fs.disarm();
                println!("after_fault={}", get(&db));
                // one more write and flush attempt after the fault is gone
                let _ = db.put(WriteOptions::default(), b"z".to_vec(), b"1".to_vec());
                let _ = db.flush_for_verif();
            }
            let db = raindb::DB::open(o.clone()).expect("reopen");
            println!("after_reopen={}", get(&db));
        }
        // sched_flush_visibility : a get runs to completion while the flush appends its edit to the manifest
        "sched_flush_visibility" => {
            use raindb::{ReadOptions, WriteOptions};
            let fs = rdbv::faultfs::FaultFs::new();
            let mut o = raindb::DbOptions::with_memory_env();
            o.filesystem_provider = std::sync::Arc::new(fs.clone());
            o.db_path = "db".to_string();
            o.create_if_missing = true;
            let db = std::sync::Arc::new(raindb::DB::open(o).expect("open"));
            db.put(WriteOptions::default(), b"k".to_vec(), b"v".to_vec()).unwrap();
            let seen: std::sync::Arc<std::sync::Mutex<String>> = Default::default();
            let (db2, seen2) = (std::sync::Arc::clone(&db), std::sync::Arc::clone(&seen));
            fs.on_touch("manifest", std::sync::Arc::new(move || {
                let r = db2.get(ReadOptions::default(), b"k");
                *seen2.lock().unwrap() = match r { Ok(x) => String::from_utf8_lossy(&x).to_string(), Err(_) => "notfound".to_string() };
            }));
            let _ = db.flush_for_verif();
            println!("during_flush={}", seen.lock().unwrap());
        }
        // sched_group_commit : two writers queue up behind an active one; the second does not fit into the first one's group
        "sched_group_commit" => {
            use raindb::{ReadOptions, WriteOptions};
            let mut o = raindb::DbOptions::with_memory_env();
            o.db_path = "db".to_string();
            o.create_if_missing = true;
            o.max_memtable_size = 64 * 1024 * 1024;
            let db = std::sync::Arc::new(raindb::DB::open(o).expect("open"));
            let fired = std::sync::Arc::new(std::sync::atomic::AtomicBool::new(false));
            let results: std::sync::Arc<std::sync::Mutex<Vec<(String, bool)>>> = Default::default();
            let handles: std::sync::Arc<std::sync::Mutex<Vec<std::thread::JoinHandle<()>>>> = Default::default();
            let (db2, fired2, res2, h2) = (std::sync::Arc::clone(&db), std::sync::Arc::clone(&fired), std::sync::Arc::clone(&results), std::sync::Arc::clone(&handles));
            v::set_sched_hook(Some(std::sync::Arc::new(move |name: &str| {
                if name == "write.after_wal" && !fired2.swap(true, std::sync::atomic::Ordering::SeqCst) {
                    for (key, len) in [("small", 10usize), ("big", 200 * 1024)] {
                        let (db3, res3) = (std::sync::Arc::clone(&db2), std::sync::Arc::clone(&res2));
                        let h = std::thread::spawn(move || {
                            let r = db3.put(WriteOptions::default(), key.as_bytes().to_vec(), vec![b'x'; len]);
                            res3.lock().unwrap().push((key.to_string(), r.is_ok()));
                        });
                        h2.lock().unwrap().push(h);
                        // give the thread time to enqueue itself behind the active writer (queue order matters)
                        std::thread::sleep(std::time::Duration::from_millis(300));
                    }
                }
            })));
            db.put(WriteOptions::default(), b"leader".to_vec(), b"1".to_vec()).unwrap();
            for h in handles.lock().unwrap().drain(..) {
                let _ = h.join();
            }
            v::set_sched_hook(None);
            for (key, ok) in results.lock().unwrap().iter() {
                println!("{}_put={}", key, if *ok { "ok" } else { "err" });
                println!("{}_get={}", key, if db.get(ReadOptions::default(), key.as_bytes()).is_ok() { "found" } else { "missing" });
            }
        }
        // sched_group_commit_fault : like sched_group_commit, but the write-ahead log starts to fail once both followers are queued: the
        // log write of their group fails; both must see the error (an acknowledged write that is nowhere is the violation)
        "sched_group_commit_fault" => {
            use raindb::{ReadOptions, WriteOptions};
            let fs = rdbv::faultfs::FaultFs::new();
            let mut o = raindb::DbOptions::with_memory_env();
            o.filesystem_provider = std::sync::Arc::new(fs.clone());
            o.db_path = "db".to_string();
            o.create_if_missing = true;
            o.max_memtable_size = 64 * 1024 * 1024;
            let db = std::sync::Arc::new(raindb::DB::open(o).expect("open"));
            let fired = std::sync::Arc::new(std::sync::atomic::AtomicBool::new(false));
            let results: std::sync::Arc<std::sync::Mutex<Vec<(String, bool)>>> = Default::default();
            let handles: std::sync::Arc<std::sync::Mutex<Vec<std::thread::JoinHandle<()>>>> = Default::default();
            let (db2, fired2, res2, h2, fs2) = (std::sync::Arc::clone(&db), std::sync::Arc::clone(&fired), std::sync::Arc::clone(&results), std::sync::Arc::clone(&handles), fs.clone());
            v::set_sched_hook(Some(std::sync::Arc::new(move |name: &str| {
                if name == "write.after_wal" && !fired2.swap(true, std::sync::atomic::Ordering::SeqCst) {
                    for (key, len) in [("small", 10usize), ("big", 200usize)] {
                        let (db3, res3) = (std::sync::Arc::clone(&db2), std::sync::Arc::clone(&res2));
                        let h = std::thread::spawn(move || {
                            let r = db3.put(WriteOptions::default(), key.as_bytes().to_vec(), vec![b'x'; len]);
                            res3.lock().unwrap().push((key.to_string(), r.is_ok()));
                        });
                        h2.lock().unwrap().push(h);
                        std::thread::sleep(std::time::Duration::from_millis(300));
                    }
                    fs2.arm(".log", 1, true);
                }
            })));
            db.put(WriteOptions::default(), b"leader".to_vec(), b"1".to_vec()).unwrap();
            for h in handles.lock().unwrap().drain(..) {
                let _ = h.join();
            }
            v::set_sched_hook(None);
            fs.disarm();
            println!("injected_failures={}", fs.failures());
            for (key, ok) in results.lock().unwrap().iter() {
                println!("{}_put={}", key, if *ok { "ok" } else { "err" });
                println!("{}_get={}", key, if db.get(ReadOptions::default(), key.as_bytes()).is_ok() { "found" } else { "missing" });
            }
        }
        // identical_concurrent_writes : writer A is parked after its log append (forced schedule); writer B issues the identical put
        // (same key, value, options) from another thread and queues behind it; afterwards a third put. Each write must get its own
        // sequence number: a snapshot taken before and one after show three new sequence numbers
        "identical_concurrent_writes" => {
            use raindb::{ReadOptions, WriteOptions};
            let mut o = raindb::DbOptions::with_memory_env();
            o.db_path = "db".to_string();
            o.create_if_missing = true;
            let db = std::sync::Arc::new(raindb::DB::open(o).expect("open"));
            db.put(WriteOptions::default(), b"other".to_vec(), b"0".to_vec()).unwrap();
            let before = db.get_snapshot();
            let fired = std::sync::Arc::new(std::sync::atomic::AtomicBool::new(false));
            let second_ok: std::sync::Arc<std::sync::Mutex<Option<bool>>> = Default::default();
            let handle: std::sync::Arc<std::sync::Mutex<Option<std::thread::JoinHandle<()>>>> = Default::default();
            let (db2, fired2, ok2, h2) = (std::sync::Arc::clone(&db), std::sync::Arc::clone(&fired), std::sync::Arc::clone(&second_ok), std::sync::Arc::clone(&handle));
            v::set_sched_hook(Some(std::sync::Arc::new(move |name: &str| {
                if name == "write.after_wal" && !fired2.swap(true, std::sync::atomic::Ordering::SeqCst) {
                    let (db3, ok3) = (std::sync::Arc::clone(&db2), std::sync::Arc::clone(&ok2));
                    *h2.lock().unwrap() = Some(std::thread::spawn(move || {
                        let r = db3.put(WriteOptions::default(), b"same".to_vec(), b"x".to_vec());
                        *ok3.lock().unwrap() = Some(r.is_ok());
                    }));
                    std::thread::sleep(std::time::Duration::from_millis(500));
                }
            })));
            let first_ok = db.put(WriteOptions::default(), b"same".to_vec(), b"x".to_vec()).is_ok();
            if let Some(h) = handle.lock().unwrap().take() {
                let _ = h.join();
            }
            v::set_sched_hook(None);
            let third_ok = db.put(WriteOptions::default(), b"same".to_vec(), b"y".to_vec()).is_ok();
            let after = db.get_snapshot();
            println!("both_ok={}", first_ok && second_ok.lock().unwrap().unwrap_or(false) && third_ok);
            println!("sequence_numbers_used={}", v::snapshot_sequence(&after) - v::snapshot_sequence(&before));
            println!("final={}", db.get(ReadOptions::default(), b"same").map(|v| String::from_utf8_lossy(&v).to_string()).unwrap_or_default());
        }
        // sched_get_race : while a get is in its unlocked section, the memtable is rotated and flushed
        "sched_get_race" => {
            use raindb::{ReadOptions, WriteOptions};
            let mut o = raindb::DbOptions::with_memory_env();
            o.db_path = "db".to_string();
            o.create_if_missing = true;
            o.max_memtable_size = 2048;
            let db = std::sync::Arc::new(raindb::DB::open(o).expect("open"));
            db.put(WriteOptions::default(), b"target".to_vec(), b"v".to_vec()).unwrap();
            let fired = std::sync::Arc::new(std::sync::atomic::AtomicBool::new(false));
            let (db2, fired2) = (std::sync::Arc::clone(&db), std::sync::Arc::clone(&fired));
            v::set_sched_hook(Some(std::sync::Arc::new(move |name: &str| {
                if name == "get.unlocked" && !fired2.swap(true, std::sync::atomic::Ordering::SeqCst) {
                    for i in 0..40u32 {
                        let _ = db2.put(WriteOptions::default(), format!("filler{:04}", i).into_bytes(), vec![b'x'; 100]);
                    }
                    let _ = db2.flush_for_verif();
                }
            })));
            let r = db.get(ReadOptions::default(), b"target");
            v::set_sched_hook(None);
            println!("race_get={}", match &r { Ok(x) => String::from_utf8_lossy(x).to_string(), Err(_) => "notfound".to_string() });
            let r2 = db.get(ReadOptions::default(), b"target");
            println!("later_get={}", match &r2 { Ok(x) => String::from_utf8_lossy(x).to_string(), Err(_) => "notfound".to_string() });
        }
        // compact_waiters : three threads run compact_range concurrently for a few rounds; do they all return?
        "compact_waiters" => {
            use raindb::WriteOptions;
            let mut o = raindb::DbOptions::with_memory_env();
            o.db_path = "db".to_string();
            o.create_if_missing = true;
            let db = std::sync::Arc::new(raindb::DB::open(o).expect("open"));
            for i in 0..20u32 {
                db.put(WriteOptions::default(), format!("k{:03}", i).into_bytes(), vec![b'x'; 50]).unwrap();
            }
            let done = std::sync::Arc::new(std::sync::atomic::AtomicUsize::new(0));
            let barrier = std::sync::Arc::new(std::sync::Barrier::new(3));
            for t in 0..3 {
                let (db, done, barrier) = (std::sync::Arc::clone(&db), std::sync::Arc::clone(&done), std::sync::Arc::clone(&barrier));
                std::thread::spawn(move || {
                    for r in 0..15u32 {
                        barrier.wait();
                        let _ = db.put(WriteOptions::default(), format!("t{}r{}", t, r).into_bytes(), vec![b'y'; 20]);
                        db.compact_range(None..None);
                    }
                    done.fetch_add(1, std::sync::atomic::Ordering::SeqCst);
                });
            }
            let start = std::time::Instant::now();
            while done.load(std::sync::atomic::Ordering::SeqCst) < 3 && start.elapsed().as_secs() < 15 {
                std::thread::sleep(std::time::Duration::from_millis(50));
            }
            println!("all_returned={}", done.load(std::sync::atomic::Ordering::SeqCst) == 3);
            std::process::exit(0);
        }
        // recovery_scenario two_wals_stale_sequence|two_wals_reuse : two write-ahead logs at or above the manifest's WAL number
        "table_rebuild" => {
            // table 1 is built twice on the same file system (the second build finds a leftover file with its number)
            let fs = std::sync::Arc::new(raindb::fs::InMemoryFileSystem::new());
            let o = v::options_with(fs, 400);
            let first: Vec<(Vec<u8>, u64, bool, Vec<u8>)> = (0..40u8).map(|i| (vec![b'a', i], 9, true, vec![i; 50])).collect();
            let ents: Vec<(&[u8], u64, bool, &[u8])> = first.iter().map(|e| (e.0.as_slice(), e.1, e.2, e.3.as_slice())).collect();
            println!("first_build={}", v::table_build(&o, &ents));
            println!("len1={}", v::table_file_len(&o));
            let second: Vec<(Vec<u8>, u64, bool, Vec<u8>)> = vec![(b"zz".to_vec(), 7, true, b"B".to_vec())];
            let ents2: Vec<(&[u8], u64, bool, &[u8])> = second.iter().map(|e| (e.0.as_slice(), e.1, e.2, e.3.as_slice())).collect();
            println!("second_build={}", v::table_build(&o, &ents2));
            println!("len2={}", v::table_file_len(&o));
            let (code, _) = v::table_get(&o, b"zz", 100);
            let names = ["Ok(Some)", "Ok(None)", "Err(KeyNotFound)", "Err(other)"];
            println!("second_build_get={}", names[code as usize]);
        }
        "get_unreadable_newest" => {
            // one key with a version in each of three table files (three levels); the newest file is damaged
            use raindb::{ReadOptions, WriteOptions};
            let mut o = raindb::DbOptions::with_memory_env();
            o.db_path = "db".to_string();
            o.create_if_missing = true;
            {
                let db = raindb::DB::open(o.clone()).expect("open");
                for val in ["v1", "v2", "v3"] {
                    db.put(WriteOptions::default(), b"key".to_vec(), val.as_bytes().to_vec()).unwrap();
                    db.put(WriteOptions::default(), format!("only-{}", val).into_bytes(), val.as_bytes().to_vec()).unwrap();
                    let _ = db.flush_for_verif();
                }
                println!("levels={}", db.get_descriptor(raindb::db::DatabaseDescriptor::SSTables).map(|d| format!("{:?}", d)).unwrap_or_default().replace('\n', " ").replace("\\n", " "));
                println!("get_before_damage={:?}", db.get(ReadOptions::default(), b"key").map(|v| String::from_utf8_lossy(&v).to_string()).map_err(|e| format!("{:?}", e)));
            }
            let nums = v::table_numbers(&o);
            println!("tables={:?}", nums);
            let newest = *nums.last().expect("a table");
            println!("damaged={}", v::flip_table_byte(&o, newest, 12));
            match raindb::DB::open(o.clone()) {
                Err(e) => println!("get_after_damage=OpenErr({:?})", e),
                Ok(db) => match db.get(ReadOptions::default(), b"key") {
                    Ok(v) => println!("get_after_damage=Ok({})", String::from_utf8_lossy(&v)),
                    Err(raindb::errors::RainDBError::KeyNotFound) => println!("get_after_damage=Err(KeyNotFound)"),
                    Err(e) => println!("get_after_damage=Err({})", format!("{:?}", e).chars().take(60).collect::<String>()),
                },
            }
        }
        // get_unopenable_newest : one key with a version in each of three table files; after a reopen (cold table cache) the file system
        // refuses to open the newest table once: the read must fail (or return v3), never return an older version or "not found"
        "get_unopenable_newest" => {
            use raindb::{ReadOptions, WriteOptions};
            let fs = rdbv::faultfs::FaultFs::new();
            let mut o = raindb::DbOptions::with_memory_env();
            o.filesystem_provider = std::sync::Arc::new(fs.clone());
            o.db_path = "db".to_string();
            o.create_if_missing = true;
            {
                let db = raindb::DB::open(o.clone()).expect("open");
                for val in ["v1", "v2", "v3"] {
                    db.put(WriteOptions::default(), b"key".to_vec(), val.as_bytes().to_vec()).unwrap();
                    let _ = db.flush_for_verif();
                }
            }
            let nums = v::table_numbers(&o);
            let newest = *nums.last().expect("a table");
            let db = raindb::DB::open(o.clone()).expect("reopen");
            if a.len() > 1 && a[1] == "notfound" { fs.fail_open_not_found(&format!("{}.rdb", newest)); } else { fs.fail_open(&format!("{}.rdb", newest)); }
            let show = |r: Result<Vec<u8>, raindb::errors::RainDBError>| match r {
                Ok(v) => format!("Ok({})", String::from_utf8_lossy(&v)),
                Err(raindb::errors::RainDBError::KeyNotFound) => "Err(KeyNotFound)".to_string(),
                Err(e) => format!("Err({})", format!("{:?}", e).chars().take(50).collect::<String>()),
            };
            println!("get_with_unopenable_newest={}", show(db.get(ReadOptions::default(), b"key")));
            fs.fail_open("");
            println!("get_afterwards={}", show(db.get(ReadOptions::default(), b"key")));
        }
        "log_reopen_len_fault" => {
            // a log with one record is reopened for appending while the size query on the new handle fails
            let fs = rdbv::faultfs::FaultFs::new();
            let afs: std::sync::Arc<dyn raindb::fs::FileSystem> = std::sync::Arc::new(fs.clone());
            let path = std::path::PathBuf::from("wal-1.log");
            {
                let mut w = v::VLogWriter::new(std::sync::Arc::clone(&afs), &path, false).unwrap();
                w.append(&vec![7u8; 100]).unwrap();
            }
            fs.fail_next_len(1);
            let r = v::VLogWriter::new(std::sync::Arc::clone(&afs), &path, true);
            println!("len_failed={}", fs.failures() > 0);
            println!("writer_new={}", if r.is_ok() { "Ok" } else { "Err" });
        }
        // log_write_faults : for k = 1..10 the k-th write call on the log file fails once without writing anything. Mode A: the same
        // writer keeps appending; mode B: the writer is dropped after the failure and a reopened writer appends the rest. Records
        // cross two block boundaries. Every record whose append returned Ok must be read back, in order.
        "log_write_faults" => {
            // a few large records, then many small ones (fragments end at every distance from the following block boundaries)
            let mut sizes: Vec<usize> = vec![500, 500, 31000, 700, 600, 40000, 300, 20];
            for i in 0..40000usize {
                sizes.push((i * 7) % 13 + 1);
            }
            let (mut lost, mut first, mut runs) = (0usize, String::new(), 0usize);
            for mode in ["same-writer", "reopened-writer"] {
                for k in [1usize, 2, 3, 4, 5, 6, 7, 8, 9, 10, 500, 2001] {
                    runs += 1;
                    let fs = rdbv::faultfs::FaultFs::new();
                    let afs: std::sync::Arc<dyn raindb::fs::FileSystem> = std::sync::Arc::new(fs.clone());
                    let path = std::path::PathBuf::from("wal-1.log");
                    let mut w = v::VLogWriter::new(std::sync::Arc::clone(&afs), &path, false).unwrap();
                    fs.arm("wal-1.log", k, false);
                    let mut acked: Vec<(usize, u8)> = vec![];
                    let mut reopened = false;
                    for (i, sz) in sizes.iter().enumerate() {
                        let rec = vec![(i % 251) as u8; *sz];
                        let before = fs.failures();
                        if w.append(&rec).is_ok() {
                            acked.push((*sz, (i % 251) as u8));
                        }
                        if mode == "reopened-writer" && fs.failures() > before && !reopened {
                            reopened = true;
                            drop(w);
                            w = v::VLogWriter::new(std::sync::Arc::clone(&afs), &path, true).unwrap();
                        }
                    }
                    drop(w);
                    fs.disarm();
                    let mut got: Vec<(usize, u8)> = vec![];
                    if let Ok(mut r) = v::VLogReader::new(std::sync::Arc::clone(&afs), &path) {
                        loop {
                            match r.read_record() {
                                Ok((rec, eof)) => {
                                    if eof {
                                        break;
                                    }
                                    got.push((rec.len(), if rec.is_empty() || !rec.iter().all(|b| *b == rec[0]) { 255 } else { rec[0] }));
                                }
                                Err(_) => break,
                            }
                        }
                    }
                    // every acknowledged record must appear, in order (records that were not acknowledged may or may not)
                    let mut gi = 0;
                    for (ai, a) in acked.iter().enumerate() {
                        while gi < got.len() && got[gi] != *a {
                            gi += 1;
                        }
                        if gi == got.len() {
                            lost += 1;
                            if first.is_empty() {
                                first = format!("{}, failing write {}: acknowledged record #{} (length {}) and what follows is not read back ({} of {} acknowledged records returned)", mode, k, ai, a.0, got.len(), acked.len());
                            }
                            break;
                        }
                        gi += 1;
                    }
                }
            }
            println!("runs={}", runs);
            println!("lost={}", lost);
            println!("first_lost={}", first);
        }
        // log_reader_opened_early ... : on the disk-backed temporary file system (one cursor per handle): k of 5 records are appended, a
        // reader is created, the remaining records are appended (by the same writer; in a second round by a reopened one), then the
        // reader reads to the end: all 5 records, in order
        "log_reader_opened_early" => {
            let sizes = [10usize, 40000, 0, 700, 33000];
            let (mut returned, mut expected, mut opened_after) = (vec![], vec![], vec![]);
            for reopen in [false, true] {
                for k in 0..=4usize {
                    let afs: std::sync::Arc<dyn raindb::fs::FileSystem> = std::sync::Arc::new(raindb::fs::TmpFileSystem::new(None));
                    let path = std::path::PathBuf::from(format!("early-{}-{}.log", reopen, k));
                    let mut w = v::VLogWriter::new(std::sync::Arc::clone(&afs), &path, false).unwrap();
                    for (i, sz) in sizes.iter().enumerate().take(k) {
                        w.append(&vec![b'a' + i as u8; *sz]).unwrap();
                    }
                    let mut r = v::VLogReader::new(std::sync::Arc::clone(&afs), &path).unwrap();
                    if reopen {
                        drop(w);
                        w = v::VLogWriter::new(std::sync::Arc::clone(&afs), &path, true).unwrap();
                    }
                    for (i, sz) in sizes.iter().enumerate().skip(k) {
                        w.append(&vec![b'a' + i as u8; *sz]).unwrap();
                    }
                    let mut n = 0usize;
                    loop {
                        match r.read_record() {
                            Ok((rec, eof)) => {
                                if eof {
                                    break;
                                }
                                if n < sizes.len() && rec.len() == sizes[n] {
                                    n += 1;
                                } else {
                                    n = 99;
                                    break;
                                }
                            }
                            Err(_) => break,
                        }
                    }
                    returned.push(n.to_string());
                    expected.push(sizes.len().to_string());
                    opened_after.push(k.to_string());
                }
            }
            println!("appends={}", sizes.len());
            println!("opened_after={}", opened_after.join(","));
            println!("returned={}", returned.join(","));
            println!("expected={}", expected.join(","));
        }
        "sched_iter_during_flush" => {
            // an iterator is created while the flush writes its table file: the key lives only in the immutable memtable
            use raindb::{RainDbIterator, ReadOptions, WriteOptions};
            let fs = rdbv::faultfs::FaultFs::new();
            let mut o = raindb::DbOptions::with_memory_env();
            o.filesystem_provider = std::sync::Arc::new(fs.clone());
            o.db_path = "db".to_string();
            o.create_if_missing = true;
            let db = std::sync::Arc::new(raindb::DB::open(o).expect("open"));
            db.put(WriteOptions::default(), b"k".to_vec(), b"v".to_vec()).unwrap();
            let seen: std::sync::Arc<std::sync::Mutex<String>> = std::sync::Arc::new(std::sync::Mutex::new("not-run".to_string()));
            let (db2, seen2) = (std::sync::Arc::clone(&db), std::sync::Arc::clone(&seen));
            fs.on_touch(".rdb", std::sync::Arc::new(move || {
                let mut keys = vec![];
                if let Ok(mut it) = db2.new_iterator(ReadOptions::default()) {
                    let _ = it.seek_to_first();
                    while it.is_valid() {
                        if let Some((k, _)) = it.current() {
                            keys.push(String::from_utf8_lossy(k).to_string());
                        }
                        if it.next().is_none() {
                            break;
                        }
                    }
                }
                *seen2.lock().unwrap() = keys.join(",");
            }));
            let _ = db.flush_for_verif();
            println!("iter_during_flush={}", seen.lock().unwrap());
        }
        // compact_range level begin|none end|none @level files... : inputs chosen by VersionSet::compact_range (max_file_size = 64)
        "compact_range" => {
            let level = num(a[1]) as usize;
            let b = if a[2] == "none" { None } else { Some(key(a[2])) };
            let e = if a[3] == "none" { None } else { Some(key(a[3])) };
            let lv = levels(&a[4..]);
            match v::compact_range_scenario(opts(), &lv, level, b, e) {
                Some((i0, i1)) => {
                    println!("picked=some");
                    println!("inputs0={}", join(&i0));
                    println!("inputs1={}", join(&i1));
                }
                None => println!("picked=none"),
            }
        }
        // representative_iterators @level files... : how many iterators does a version with these files hand to a scan?
        "representative_iterators" => {
            let lv = levels(&a[1..]);
            match v::representative_iterator_count(opts(), &lv) {
                Some(n) => println!("iterators={}", n),
                None => println!("iterators=error"),
            }
        }
        // table_filter_versions : like table_filter_sweep, but every user key has 5 versions (sequence 9..5) with incompressible
        // values, and every version is looked up with its own sequence bound
        "table_filter_versions" => {
            let mut missing = 0usize;
            let mut first = String::new();
            let mut x: u32 = 12345;
            for vlen in [100usize, 300, 700, 900] {
                let fs = std::sync::Arc::new(raindb::fs::InMemoryFileSystem::new());
                let o = v::options_with(fs, 1024);
                let mut owned: Vec<(Vec<u8>, u64, bool, Vec<u8>)> = vec![];
                for i in 0..40u32 {
                    for seq in (5..=9u64).rev() {
                        let val: Vec<u8> = (0..vlen).map(|_| { x = x.wrapping_mul(1664525).wrapping_add(1013904223); (x >> 24) as u8 }).collect();
                        owned.push((format!("key{:04}", i).into_bytes(), seq, true, val));
                    }
                }
                let ents: Vec<(&[u8], u64, bool, &[u8])> = owned.iter().map(|e| (e.0.as_slice(), e.1, e.2, e.3.as_slice())).collect();
                if !v::table_build(&o, &ents) {
                    println!("result=build-failed");
                    return;
                }
                for e in &owned {
                    let (code, val) = v::table_get(&o, &e.0, e.1);
                    if code != 0 || val != e.3 {
                        missing += 1;
                        if first.is_empty() {
                            first = format!("{} @ {} (value length {})", String::from_utf8_lossy(&e.0), e.1, vlen);
                        }
                    }
                }
            }
            println!("missing={}", missing);
            println!("first_missing={}", first);
        }
        // flush_bounds : the first user key of a flushed memtable has two versions; which key range is reported for the table?
        "flush_bounds" => {
            use raindb::WriteOptions;
            let mut o = raindb::DbOptions::with_memory_env();
            o.db_path = "db".to_string();
            o.create_if_missing = true;
            let db = raindb::DB::open(o).expect("open");
            db.put(WriteOptions::default(), b"a".to_vec(), b"1".to_vec()).unwrap();
            db.put(WriteOptions::default(), b"a".to_vec(), b"2".to_vec()).unwrap();
            db.put(WriteOptions::default(), b"z".to_vec(), b"3".to_vec()).unwrap();
            let _ = db.flush_for_verif();
            let d = db.get_descriptor(raindb::db::DatabaseDescriptor::SSTables).map(|d| format!("{:?}", d)).unwrap_or_default();
            println!("tables={}", d.replace("\\n", " "));
        }
        // read_sample keyU:seq @level files... : the seek-compaction candidate after up to 300 read samples of the key
        "read_sample" => {
            let t = key(a[1]);
            let lv = levels(&a[2..]);
            match v::read_sample_scenario(opts(), &lv, t, 300) {
                Some((n, l)) => {
                    println!("candidate={}", n);
                    println!("candidate_level={}", l);
                }
                None => println!("candidate=none"),
            }
        }
        // compact_unopenable_newest : like get_unreadable_newest, but the newest table cannot be opened at all (damaged footer)
        // and a manual compaction of the whole key space runs before the read
        "compact_unopenable_newest" => {
            use raindb::{ReadOptions, WriteOptions};
            let mut o = raindb::DbOptions::with_memory_env();
            o.db_path = "db".to_string();
            o.create_if_missing = true;
            {
                let db = raindb::DB::open(o.clone()).expect("open");
                for val in ["v1", "v2", "v3"] {
                    db.put(WriteOptions::default(), b"key".to_vec(), val.as_bytes().to_vec()).unwrap();
                    db.put(WriteOptions::default(), format!("only-{}", val).into_bytes(), val.as_bytes().to_vec()).unwrap();
                    let _ = db.flush_for_verif();
                }
            }
            let nums = v::table_numbers(&o);
            let newest = *nums.last().expect("a table");
            println!("damaged={}", v::flip_table_byte(&o, newest, usize::MAX));
            match raindb::DB::open(o.clone()) {
                Err(e) => println!("get_after_compaction=OpenErr({:?})", e),
                Ok(db) => {
                    db.compact_range(None..None);
                    match db.get(ReadOptions::default(), b"key") {
                        Ok(v) => println!("get_after_compaction=Ok({})", String::from_utf8_lossy(&v)),
                        Err(raindb::errors::RainDBError::KeyNotFound) => println!("get_after_compaction=Err(KeyNotFound)"),
                        Err(e) => println!("get_after_compaction=Err({})", format!("{:?}", e).chars().take(60).collect::<String>()),
                    }
                    println!("tables_after={:?}", v::table_numbers(&o));
                }
            }
        }
        // compact_unreadable_parent_input : three flushes leave one table each at levels 2, 1 and 0 (overlapping key ranges); the
        // level-1 table gets a damaged footer while the database is closed; after a reopen (cold table cache) the whole key space
        // is compacted. The level-1 table is the *second* child of the merge (opened lazily): the compaction has to fail. An
        // acknowledged key may afterwards be unreadable (error) but never absent or older.
        "compact_unreadable_parent_input" => {
            use raindb::{ReadOptions, WriteOptions};
            let mut o = raindb::DbOptions::with_memory_env();
            o.db_path = "db".to_string();
            o.create_if_missing = true;
            let mut want: std::collections::BTreeMap<Vec<u8>, Vec<u8>> = Default::default();
            {
                let db = raindb::DB::open(o.clone()).expect("open");
                for (round, range) in [(0usize, 0..20usize), (1, 5..15), (2, 8..11)] {
                    for i in range {
                        let (k, val) = (format!("k{:02}", i).into_bytes(), format!("round{}-{}", round, i).into_bytes());
                        db.put(WriteOptions::default(), k.clone(), val.clone()).unwrap();
                        want.insert(k, val);
                    }
                    let (k, val) = (format!("k{:02}-only-round{}", 9, round).into_bytes(), format!("only{}", round).into_bytes());
                    db.put(WriteOptions::default(), k.clone(), val.clone()).unwrap();
                    want.insert(k, val);
                    let _ = db.flush_for_verif();
                }
                println!("levels_before={}", db.get_descriptor(raindb::db::DatabaseDescriptor::SSTables).map(|d| format!("{:?}", d).chars().filter(|c| !c.is_whitespace()).take(200).collect::<String>()).unwrap_or_default());
            }
            let nums = v::table_numbers(&o);
            println!("tables_before={}", join(&nums));
            if nums.len() != 3 {
                println!("compact=setup-failed");
                return;
            }
            println!("damaged={}", v::flip_table_byte(&o, nums[1], usize::MAX));
            match raindb::DB::open(o.clone()) {
                Err(e) => println!("compact=OpenErr({:?})", e),
                Ok(db) => {
                    db.compact_range(None..None);
                    println!("compact=done");
                    let (mut lost, mut errors, mut first) = (0usize, 0usize, String::new());
                    for (k, val) in &want {
                        match db.get(ReadOptions::default(), k) {
                            Ok(got) if &got == val => {}
                            Err(raindb::errors::RainDBError::KeyNotFound) | Ok(_) => {
                                lost += 1;
                                if first.is_empty() {
                                    first = String::from_utf8_lossy(k).to_string();
                                }
                            }
                            Err(_) => errors += 1,
                        }
                    }
                    println!("keys={}", want.len());
                    println!("lost={}", lost);
                    println!("read_errors={}", errors);
                    println!("first_lost={}", first);
                    println!("tables_after={}", join(&v::table_numbers(&o)));
                }
            }
        }
        // snapshot_interleave : a logger is installed that, the first time the thread inside DB::get_snapshot logs anything, lets the main
        // thread overwrite the key and compact the whole range before the snapshot call continues (a call that works in one critical
        // section never gives the logger that chance while it matters). The snapshot then has to read the value of its state.
        "snapshot_interleave" => {
            use raindb::{ReadOptions, WriteOptions};
            use std::sync::atomic::{AtomicBool, Ordering};
            use std::sync::mpsc::{channel, Receiver, Sender};
            thread_local! { static IN_SNAPSHOT_CALL: std::cell::Cell<bool> = std::cell::Cell::new(false); }
            struct Hook { fired: AtomicBool, to_main: std::sync::Mutex<Sender<()>>, from_main: std::sync::Mutex<Receiver<()>> }
            impl log::Log for Hook {
                fn enabled(&self, _: &log::Metadata) -> bool { true }
                fn log(&self, _: &log::Record) {
                    if IN_SNAPSHOT_CALL.with(|c| c.get()) && !self.fired.swap(true, Ordering::SeqCst) {
                        let _ = self.to_main.lock().unwrap().send(());
                        let _ = self.from_main.lock().unwrap().recv_timeout(std::time::Duration::from_secs(5));
                    }
                }
                fn flush(&self) {}
            }
            let (to_main, at_main) = channel();
            let (to_hook, at_hook) = channel();
            let hook: &'static Hook = Box::leak(Box::new(Hook { fired: AtomicBool::new(false), to_main: std::sync::Mutex::new(to_main), from_main: std::sync::Mutex::new(at_hook) }));
            let _ = log::set_logger(hook);
            log::set_max_level(log::LevelFilter::Trace);
            let mut o = raindb::DbOptions::with_memory_env();
            o.db_path = "db".to_string();
            o.create_if_missing = true;
            let db = std::sync::Arc::new(raindb::DB::open(o).expect("open"));
            db.put(WriteOptions::default(), b"k".to_vec(), b"v1".to_vec()).unwrap();
            db.compact_range(None..None);
            let db2 = std::sync::Arc::clone(&db);
            let (tx, rx) = channel();
            std::thread::spawn(move || {
                IN_SNAPSHOT_CALL.with(|c| c.set(true));
                let snap = db2.get_snapshot();
                IN_SNAPSHOT_CALL.with(|c| c.set(false));
                let _ = tx.send(snap);
            });
            let interleaved = at_main.recv_timeout(std::time::Duration::from_secs(2)).is_ok();
            if interleaved {
                // the snapshot call is parked inside the logger: overwrite and compact on a helper thread (it blocks if the call holds the mutex)
                let db3 = std::sync::Arc::clone(&db);
                let (dtx, drx) = channel();
                std::thread::spawn(move || {
                    db3.put(WriteOptions::default(), b"k".to_vec(), b"v2".to_vec()).unwrap();
                    db3.compact_range(None..None);
                    let _ = dtx.send(());
                });
                let done = drx.recv_timeout(std::time::Duration::from_secs(4)).is_ok();
                println!("interference_completed={}", done);
                let _ = to_hook.send(());
            }
            println!("interleaved={}", interleaved);
            match rx.recv_timeout(std::time::Duration::from_secs(20)) {
                Ok(snap) => {
                    let got = db.get(ReadOptions { snapshot: Some(snap.clone()), ..ReadOptions::default() }, b"k");
                    println!("snapshot_read={}", got.map(|v| String::from_utf8_lossy(&v).to_string()).unwrap_or_else(|e| format!("error {:?}", e)));
                }
                Err(_) => println!("snapshot_read=get_snapshot did not return"),
            }
            std::process::exit(0);
        }
        // iter_resume_after_read_fault : a table of 300 keys in 256-byte blocks is scanned forwards and backwards with a cold block cache
        // while every step is given one chance to hit a failing read (only steps that load a new block read the file). After a
        // failed step the scan resumes with seek(last key seen): the resumed scan must continue with exactly the keys that follow
        // (no key skipped or repeated)
        "iter_resume_after_read_fault" => {
            use raindb::{RainDbIterator, ReadOptions, WriteOptions};
            let fs = rdbv::faultfs::FaultFs::new();
            let mk = |fs: &rdbv::faultfs::FaultFs| { let mut o = raindb::DbOptions::with_memory_env(); o.filesystem_provider = std::sync::Arc::new(fs.clone()); o.db_path = "db".to_string(); o.create_if_missing = true; o.max_block_size = 256; o };
            let keys: Vec<Vec<u8>> = (0..300u32).map(|i| format!("k{:05}", i).into_bytes()).collect();
            let db = raindb::DB::open(mk(&fs)).expect("open");
            for k in &keys { db.put(WriteOptions::default(), k.clone(), vec![b'v'; 20]).unwrap(); }
            // a level-0 table: its table iterator is a direct child of the merging iterator and lives as long as the scan; the
            // memtable is empty afterwards; blocks are never cached (fill_cache = false), so every block crossing reads the file
            db.hold_background_for_verif(true);
            let _ = db.flush_to_level_zero_for_verif();
            let (mut faults, mut bad, mut first) = (0usize, 0usize, String::new());
            for forward in [true, false] {
                let mut it = db.new_iterator(ReadOptions { fill_cache: false, snapshot: None }).unwrap();
                let n = keys.len() as i64;
                let mut pos: i64 = if forward { 0 } else { n - 1 };
                let _ = if forward { it.seek_to_first() } else { it.seek_to_last() };
                let mut guard = 0;
                let mut retry = false;
                while pos >= 0 && pos < n && guard < 5000 {
                    guard += 1;
                    let here = if it.is_valid() { it.current().map(|(k, _)| k.to_vec()) } else { None };
                    if here.as_deref() != Some(keys[pos as usize].as_slice()) {
                        bad += 1;
                        if first.is_empty() { first = format!("{} scan: expected {} under the cursor, found {:?}", if forward { "forward" } else { "backward" }, String::from_utf8_lossy(&keys[pos as usize]), here.map(|k| String::from_utf8_lossy(&k).to_string())); }
                        break;
                    }
                    let next_pos = if forward { pos + 1 } else { pos - 1 };
                    if next_pos < 0 || next_pos >= n { break; }
                    let before = fs.failures();
                    if !retry { fs.fail_next_reads(".rdb", 1); }
                    let _ = if forward { it.next() } else { it.prev() };
                    fs.fail_next_reads(".rdb", 0);
                    if fs.failures() > before {
                        // the step hit the failing read: resume at the last key seen and take the step again (without a fault)
                        faults += 1;
                        retry = true;
                        let _ = it.seek(&keys[pos as usize]);
                        continue;
                    }
                    retry = false;
                    pos = next_pos;
                }
            }
            println!("faults_injected={}", faults);
            println!("bad={}", bad);
            println!("first_bad={}", first);
            db.hold_background_for_verif(false);
        }
        // sstables_descriptor : three disjoint key ranges are flushed in descending key order (x..z, m..p, a..c: they settle in one deeper
        // level, the newest table holding the smallest keys), one more table stays in level 0. The SSTables descriptor must list every
        // table once, under its level, and the tables of a level >= 1 in key order
        "sstables_descriptor" => {
            use raindb::WriteOptions;
            let mut o = raindb::DbOptions::with_memory_env();
            o.db_path = "db".to_string();
            o.create_if_missing = true;
            let db = raindb::DB::open(o.clone()).expect("open");
            for group in [["x", "y", "z"], ["m", "n", "p"], ["a", "b", "c"]] {
                for k in group { db.put(WriteOptions::default(), k.as_bytes().to_vec(), b"v".to_vec()).unwrap(); }
                let _ = db.flush_for_verif();
            }
            let text = db.get_descriptor(raindb::db::DatabaseDescriptor::SSTables).unwrap_or_default();
            let (mut level, mut problems, mut listed) = (0usize, vec![], 0usize);
            let mut prev_start: Option<String> = None;
            for line in text.lines() {
                if let Some(rest) = line.strip_prefix("--- Level ") {
                    level = rest.trim_end_matches(" ---").trim().parse().unwrap_or(99);
                    prev_start = None;
                    continue;
                }
                if let Some(i) = line.find('[') {
                    listed += 1;
                    let start = line[i + 1..].split(" @ ").next().unwrap_or("").to_string();
                    if level >= 1 {
                        if let Some(p) = &prev_start {
                            if *p >= start { problems.push(format!("level {}: table starting at {:?} is listed after the table starting at {:?}", level, start, p)); }
                        }
                    }
                    prev_start = Some(start);
                }
            }
            let on_disk = v::table_numbers(&o).len();
            if listed != on_disk { problems.push(format!("{} tables listed, {} table files", listed, on_disk)); }
            println!("listed={}", listed);
            println!("problems={}", problems.len());
            println!("first_problem={}", problems.first().cloned().unwrap_or_default());
        }
        // lru_cache <capacity> op:key:value ... : the operations (insert / get / remove) on a real LRUCache<u64, u64>, next to an ordered
        // list (most recently used first) as reference: what every insert / get observed, len() at the end, and the values every
        // handle still reads at the end
        "lru_cache" => {
            let cap: usize = a[1].parse().unwrap();
            let mut ops: Vec<(String, u64, u64)> = vec![];
            for t in &a[2..] {
                let p: Vec<&str> = t.split(':').collect();
                ops.push((p[0].to_string(), p[1].parse().unwrap(), p[2].parse().unwrap()));
            }
            let mut reference: Vec<(u64, u64)> = vec![];
            let (mut want_seen, mut want_handles) = (vec![], vec![]);
            for (op, k, v) in &ops {
                let pos = reference.iter().position(|e| e.0 == *k);
                match op.as_str() {
                    "insert" => {
                        if let Some(i) = pos { reference.remove(i); }
                        reference.insert(0, (*k, *v));
                        reference.truncate(cap);
                        want_seen.push(Some(*v));
                        want_handles.push(*v);
                    }
                    "get" => match pos {
                        Some(i) => {
                            let e = reference.remove(i);
                            reference.insert(0, e);
                            want_seen.push(Some(e.1));
                            want_handles.push(e.1);
                        }
                        None => want_seen.push(None),
                    },
                    _ => {
                        if let Some(i) = pos { reference.remove(i); }
                        want_seen.push(None);
                    }
                }
            }
            let (seen, len, at_end) = v::lru_cache_scenario(cap, &ops);
            println!("observed={:?} len {} handles {:?}", seen, len, at_end);
            println!("expected={:?} len {} handles {:?}", want_seen, reference.len(), want_handles);
            println!("agree={}", seen == want_seen && len == reference.len() && at_end == want_handles);
        }
        // linked_list op:arg ... : the operations (push:i / push_front:i add element 100 + i; pop; pop_front; remove:k removes the k-th
        // listed node) on a real LinkedList<u64>, next to a VecDeque as reference
        "linked_list" => {
            let mut ops: Vec<(u8, u64)> = vec![];
            let mut reference: std::collections::VecDeque<u64> = Default::default();
            for t in &a[1..] {
                let (name, arg) = t.split_once(':').unwrap();
                let arg: u64 = arg.parse().unwrap();
                match name {
                    "push" => { ops.push((0, 100 + arg)); reference.push_back(100 + arg); }
                    "push_front" => { ops.push((1, 100 + arg)); reference.push_front(100 + arg); }
                    "pop" => { ops.push((2, 0)); reference.pop_back(); }
                    "pop_front" => { ops.push((3, 0)); reference.pop_front(); }
                    _ => { ops.push((4, arg)); reference.remove(arg as usize); }
                }
            }
            let (order, len, head, tail) = v::linked_list_scenario(&ops);
            let r: Vec<u64> = reference.iter().cloned().collect();
            println!("order={}", join(&order));
            println!("expected={}", join(&r));
            println!("len={}", len);
            println!("expected_len={}", r.len());
            println!("ends={:?}/{:?}", head, tail);
            println!("expected_ends={:?}/{:?}", r.first(), r.last());
        }
        // iterate_large_entry : entries of 10 bytes, 3 MiB and 5 MiB are stored (one flushed, one in the memtable); a database
        // iterator walks forwards and backwards over all of them (the driver applies a watchdog)
        "iterate_large_entry" => {
            use raindb::{ReadOptions, WriteOptions, RainDbIterator};
            let mut o = raindb::DbOptions::with_memory_env();
            o.db_path = "db".to_string();
            o.create_if_missing = true;
            o.max_memtable_size = 16 * 1024 * 1024;
            let db = raindb::DB::open(o).expect("open");
            db.put(WriteOptions::default(), b"a-small".to_vec(), vec![1u8; 10]).unwrap();
            db.put(WriteOptions::default(), b"b-large".to_vec(), vec![2u8; 3 * 1024 * 1024]).unwrap();
            let _ = db.flush_for_verif();
            db.put(WriteOptions::default(), b"c-larger".to_vec(), vec![3u8; 5 * 1024 * 1024]).unwrap();
            let mut it = db.new_iterator(ReadOptions::default()).expect("iterator");
            let mut n = 0usize;
            it.seek_to_first().unwrap();
            while it.is_valid() {
                n += 1;
                it.next();
            }
            it.seek_to_last().unwrap();
            while it.is_valid() {
                n += 1;
                it.prev();
            }
            println!("entries={}", n);
            println!("expected=6");
        }
        // compaction_outputs : a compaction opens three output files in a row; which table numbers are protected afterwards?
        "compaction_outputs" => {
            let mut o = raindb::DbOptions::with_memory_env();
            o.db_path = "db".to_string();
            o.create_if_missing = true;
            let db = raindb::DB::open(o).expect("open");
            let (outputs, in_use) = db.compaction_outputs_for_verif(3);
            println!("outputs={}", join(&outputs));
            println!("in_use={}", join(&in_use));
        }
        // reopen_orphan : a closed database holds a table file no version refers to (leftover of a crashed flush); is it
        // reclaimed by a reopen that has nothing else to do (log and manifest reused)?
        "reopen_orphan" => {
            use raindb::WriteOptions;
            let mut o = raindb::DbOptions::with_memory_env();
            o.db_path = "db".to_string();
            o.create_if_missing = true;
            o.reuse_log_files = true;
            {
                let db = raindb::DB::open(o.clone()).expect("open");
                db.put(WriteOptions::default(), b"k".to_vec(), b"v".to_vec()).unwrap();
            }
            {
                let mut f = o.filesystem_provider().create_file(&v::table_path(&o, 999), false).unwrap();
                f.append(b"leftover").unwrap();
            }
            println!("before={}", join(&v::table_numbers(&o)));
            {
                let _db = raindb::DB::open(o.clone()).expect("reopen");
            }
            println!("after={}", join(&v::table_numbers(&o)));
        }
        // table_scan_corrupt badblock shape uk:seq:op:vv ... : a forward scan over a table one of whose data blocks is damaged
        "table_scan_corrupt" => {
            let bad = num(a[1]) as usize;
            let o = match build_table(a[2], &a[3..]) {
                Some(o) => o,
                None => {
                    println!("result=build-failed");
                    return;
                }
            };
            let handles = v::table_block_handles(&o).expect("handles");
            let fsys = o.filesystem_provider();
            let tpath = v::table_path(&o, 1);
            let f = fsys.open_file(&tpath).unwrap();
            let len = f.len().unwrap() as usize;
            let mut bytes = vec![0u8; len];
            f.read_from(&mut bytes, 0).unwrap();
            let (off, size) = handles[bad];
            bytes[(off + size / 2) as usize] ^= 0x40;
            {
                let mut w = fsys.create_file(&tpath, false).unwrap();
                w.append(&bytes).unwrap();
            }
            let total = a.len() - 3;
            let mut ops = vec!["first"];
            for _ in 0..total {
                ops.push("next");
            }
            match v::table_iter_cursor(&o, &ops, (b"", 0)) {
                Some(c) => {
                    println!("total={}", total);
                    println!("seen={}", c.iter().filter(|x| x.is_some()).count());
                    println!("steps={}", c.len());
                }
                None => println!("result=open-failed"),
            }
        }
        // table_edge_keys : tables holding the empty user key, one-byte keys and a key of 0xff bytes; every stored key is looked up
        "table_edge_keys" => {
            let mut missing = vec![];
            for block in [64usize, 256, 4096] {
                let fs = std::sync::Arc::new(raindb::fs::InMemoryFileSystem::new());
                let o = v::options_with(fs, block);
                let keys: Vec<Vec<u8>> = vec![vec![], vec![0], vec![0, 0], b"a".to_vec(), b"a".to_vec(), b"b".to_vec(), vec![0xff], vec![0xff, 0xff]];
                let mut seq = 20u64;
                let owned: Vec<(Vec<u8>, u64, bool, Vec<u8>)> = keys.iter().map(|k| { seq -= 1; (k.clone(), seq, true, vec![seq as u8; 40]) }).collect();
                let ents: Vec<(&[u8], u64, bool, &[u8])> = owned.iter().map(|e| (e.0.as_slice(), e.1, e.2, e.3.as_slice())).collect();
                if !v::table_build(&o, &ents) {
                    println!("result=build-failed");
                    return;
                }
                for e in &owned {
                    let (code, val) = v::table_get(&o, &e.0, e.1);
                    if code != 0 || val != e.3 {
                        missing.push(format!("{}@{}(block {})", tohex(&e.0), e.1, block));
                    }
                }
            }
            println!("missing={}", missing.len());
            println!("first_missing={}", missing.first().cloned().unwrap_or_default());
        }
        // l0_stop_release : level 0 is at the stop-writes trigger and the memtable is full; a writer parks; the background
        // compaction then drains level 0. Is the writer released? (the driver applies a watchdog)
        "l0_stop_release" => {
            use raindb::WriteOptions;
            let mut o = raindb::DbOptions::with_memory_env();
            o.db_path = "db".to_string();
            o.create_if_missing = true;
            o.max_memtable_size = 64 * 1024;
            let db = std::sync::Arc::new(raindb::DB::open(o).expect("open"));
            db.hold_background_for_verif(true);
            let mut round = 0;
            while db.num_level_zero_files_for_verif() < 12 && round < 40 {
                db.put(WriteOptions::default(), b"a".to_vec(), format!("begin{}", round).into_bytes()).unwrap();
                db.put(WriteOptions::default(), b"z".to_vec(), format!("end{}", round).into_bytes()).unwrap();
                db.flush_to_level_zero_for_verif();
                round += 1;
            }
            println!("level0_files={}", db.num_level_zero_files_for_verif());
            db.put(WriteOptions::default(), b"m".to_vec(), vec![7u8; 80 * 1024]).unwrap();
            db.hold_background_for_verif(false);
            let (tx, rx) = std::sync::mpsc::channel();
            let db2 = std::sync::Arc::clone(&db);
            std::thread::spawn(move || {
                let r = db2.put(WriteOptions::default(), b"n".to_vec(), b"late".to_vec());
                let _ = tx.send(r.is_ok());
            });
            std::thread::sleep(std::time::Duration::from_millis(500));
            println!("parked={}", rx.try_recv().is_err());
            println!("scheduled={}", db.schedule_compaction_for_verif());
            match rx.recv_timeout(std::time::Duration::from_secs(15)) {
                Ok(ok) => println!("writer={}", if ok { "released" } else { "error" }),
                Err(_) => {
                    println!("writer=stuck");
                    println!("level0_files_after={}", db.num_level_zero_files_for_verif());
                    std::process::exit(0);
                }
            }
            println!("level0_files_after={}", db.num_level_zero_files_for_verif());
        }
        // parked_writer_flush_fails : the active memtable is full while the previous one still waits for its flush, so a writer parks
        // in make_room_for_write; the flush then fails (table files cannot be created). The failed state is recorded and every
        // waiter is woken: the parked writer has to return (with the error) within 15 s
        "parked_writer_flush_fails" => {
            use raindb::WriteOptions;
            let fs = rdbv::faultfs::FaultFs::new();
            let mut o = raindb::DbOptions::with_memory_env();
            o.filesystem_provider = std::sync::Arc::new(fs.clone());
            o.db_path = "db".to_string();
            o.create_if_missing = true;
            o.max_memtable_size = 64 * 1024;
            let db = std::sync::Arc::new(raindb::DB::open(o).expect("open"));
            db.hold_background_for_verif(true);
            db.put(WriteOptions::default(), b"m".to_vec(), vec![7u8; 80 * 1024]).unwrap();
            db.put(WriteOptions::default(), b"n".to_vec(), vec![8u8; 80 * 1024]).unwrap();
            println!("immutable_pending={}", db.has_immutable_memtable_for_verif());
            fs.arm(".rdb", 1, true);
            let (tx, rx) = std::sync::mpsc::channel();
            let db2 = std::sync::Arc::clone(&db);
            std::thread::spawn(move || {
                let r = db2.put(WriteOptions::default(), b"q".to_vec(), b"late".to_vec());
                let _ = tx.send(r.is_ok());
            });
            std::thread::sleep(std::time::Duration::from_millis(500));
            println!("parked={}", rx.try_recv().is_err());
            db.hold_background_for_verif(false);
            println!("scheduled={}", db.schedule_compaction_for_verif());
            match rx.recv_timeout(std::time::Duration::from_secs(15)) {
                Ok(ok) => println!("writer={}", if ok { "released" } else { "error" }),
                Err(_) => {
                    println!("writer=stuck");
                    println!("fault_hit={}", fs.failures() > 0);
                    std::process::exit(0);
                }
            }
            println!("fault_hit={}", fs.failures() > 0);
        }
        // manual_request_during_compaction : a size-triggered level-0 compaction is writing its output when another thread
        // requests a manual compaction. Does the requester return, and does the background thread survive?
        "manual_request_during_compaction" => {
            use raindb::WriteOptions;
            let fs = rdbv::faultfs::FaultFs::new();
            let mut o = raindb::DbOptions::with_memory_env();
            o.filesystem_provider = std::sync::Arc::new(fs.clone());
            o.db_path = "db".to_string();
            o.create_if_missing = true;
            let db = std::sync::Arc::new(raindb::DB::open(o).expect("open"));
            db.hold_background_for_verif(true);
            for round in 0..4 {
                db.put(WriteOptions::default(), b"a".to_vec(), format!("begin{}", round).into_bytes()).unwrap();
                db.put(WriteOptions::default(), b"z".to_vec(), format!("end{}", round).into_bytes()).unwrap();
                db.flush_to_level_zero_for_verif();
            }
            println!("level0_files={}", db.num_level_zero_files_for_verif());
            let (tx, rx) = std::sync::mpsc::channel();
            let db2 = std::sync::Arc::clone(&db);
            let tx2 = std::sync::Mutex::new(Some(tx));
            fs.on_touch(".rdb", std::sync::Arc::new(move || {
                // runs on the compaction thread, in its unlocked section
                let db3 = std::sync::Arc::clone(&db2);
                let tx3 = tx2.lock().unwrap().take().unwrap();
                std::thread::spawn(move || {
                    db3.force_level_compaction_for_verif(0);
                    let _ = tx3.send(());
                });
                std::thread::sleep(std::time::Duration::from_millis(400));
            }));
            db.hold_background_for_verif(false);
            println!("scheduled={}", db.schedule_compaction_for_verif());
            match rx.recv_timeout(std::time::Duration::from_secs(15)) {
                Ok(()) => println!("requester=returned"),
                Err(_) => {
                    println!("requester=stuck");
                    std::process::exit(0);
                }
            }
            // the background thread must still serve a flush
            db.put(WriteOptions::default(), b"k".to_vec(), b"v".to_vec()).unwrap();
            let (tx4, rx4) = std::sync::mpsc::channel();
            let db4 = std::sync::Arc::clone(&db);
            std::thread::spawn(move || { let _ = tx4.send(db4.flush_for_verif()); });
            match rx4.recv_timeout(std::time::Duration::from_secs(15)) {
                Ok(ok) => println!("later_flush={}", if ok { "ok" } else { "err" }),
                Err(_) => { println!("later_flush=stuck"); std::process::exit(0); }
            }
        }
        // manual_compaction_fault : four level-0 tables; table file writes start to fail; a manual compaction of level 0 is requested
        // on another thread: the request fails in the background, the requester must come back (15 s watchdog)
        "manual_compaction_fault" => {
            use raindb::WriteOptions;
            let fs = rdbv::faultfs::FaultFs::new();
            let mut o = raindb::DbOptions::with_memory_env();
            o.filesystem_provider = std::sync::Arc::new(fs.clone());
            o.db_path = "db".to_string();
            o.create_if_missing = true;
            let db = std::sync::Arc::new(raindb::DB::open(o).expect("open"));
            db.hold_background_for_verif(true);
            for round in 0..3 {
                db.put(WriteOptions::default(), b"a".to_vec(), format!("begin{}", round).into_bytes()).unwrap();
                db.put(WriteOptions::default(), b"z".to_vec(), format!("end{}", round).into_bytes()).unwrap();
                db.flush_to_level_zero_for_verif();
            }
            println!("level0_files={}", db.num_level_zero_files_for_verif());
            fs.arm(".rdb", 1, true);
            db.hold_background_for_verif(false);
            let (tx, rx) = std::sync::mpsc::channel();
            let db2 = std::sync::Arc::clone(&db);
            std::thread::spawn(move || {
                db2.force_level_compaction_for_verif(0);
                let _ = tx.send(());
            });
            match rx.recv_timeout(std::time::Duration::from_secs(15)) {
                Ok(()) => println!("requester=returned"),
                Err(_) => println!("requester=stuck"),
            }
            println!("injected_failures={}", fs.failures());
            std::process::exit(0);
        }
        // flush_request_during_batch : a writer is in the middle of inserting a 4-key batch into the memtable (forced schedule at
        // the memtable.after_insert point) when another thread calls compact_range; after both are done every key of the
        // acknowledged batch must be readable
        "flush_request_during_batch" => {
            use raindb::{ReadOptions, WriteOptions};
            let mut o = raindb::DbOptions::with_memory_env();
            o.db_path = "db".to_string();
            o.create_if_missing = true;
            let db = std::sync::Arc::new(raindb::DB::open(o).expect("open"));
            let inserts = std::sync::Arc::new(std::sync::atomic::AtomicUsize::new(0));
            let handle: std::sync::Arc<std::sync::Mutex<Option<std::thread::JoinHandle<()>>>> = Default::default();
            let (db2, inserts2, handle2) = (std::sync::Arc::clone(&db), std::sync::Arc::clone(&inserts), std::sync::Arc::clone(&handle));
            v::set_sched_hook(Some(std::sync::Arc::new(move |name: &str| {
                if name == "memtable.after_insert" && inserts2.fetch_add(1, std::sync::atomic::Ordering::SeqCst) + 1 == 2 {
                    let db3 = std::sync::Arc::clone(&db2);
                    let (tx, rx) = std::sync::mpsc::channel();
                    *handle2.lock().unwrap() = Some(std::thread::spawn(move || {
                        db3.compact_range(None..None);
                        let _ = tx.send(());
                    }));
                    // the request may (and on the documented mechanism must) block until this writer is done
                    let _ = rx.recv_timeout(std::time::Duration::from_secs(2));
                }
            })));
            let mut batch = raindb::Batch::new();
            for k in ["k1", "k2", "k3", "k4"] {
                batch.add_put(k.as_bytes().to_vec(), b"value".to_vec());
            }
            let applied = db.apply(WriteOptions::default(), batch).is_ok();
            v::set_sched_hook(None);
            if let Some(h) = handle.lock().unwrap().take() {
                let _ = h.join();
            }
            println!("applied={}", applied);
            let vis: Vec<String> = ["k1", "k2", "k3", "k4"].iter().map(|k| db.get(ReadOptions::default(), k.as_bytes()).is_ok().to_string()).collect();
            println!("visible={}", vis.join(","));
        }
        // large_batch_visibility : a batch of six 300 KiB values (> 1 MiB together); a reader looks at the database while the 5th
        // value is being inserted (forced schedule): it must see none of the keys; afterwards all of them
        "large_batch_visibility" => {
            use raindb::{ReadOptions, WriteOptions};
            let mut o = raindb::DbOptions::with_memory_env();
            o.db_path = "db".to_string();
            o.create_if_missing = true;
            o.max_memtable_size = 64 * 1024 * 1024;
            let db = std::sync::Arc::new(raindb::DB::open(o).expect("open"));
            let keys: Vec<String> = (0..6).map(|i| format!("big{}", i)).collect();
            let inserts = std::sync::Arc::new(std::sync::atomic::AtomicUsize::new(0));
            let seen: std::sync::Arc<std::sync::Mutex<String>> = std::sync::Arc::new(std::sync::Mutex::new("not-run".to_string()));
            let (db2, inserts2, seen2, keys2) = (std::sync::Arc::clone(&db), std::sync::Arc::clone(&inserts), std::sync::Arc::clone(&seen), keys.clone());
            v::set_sched_hook(Some(std::sync::Arc::new(move |name: &str| {
                if name == "memtable.after_insert" && inserts2.fetch_add(1, std::sync::atomic::Ordering::SeqCst) + 1 == 5 {
                    let db3 = std::sync::Arc::clone(&db2);
                    let keys3 = keys2.clone();
                    let r = std::thread::spawn(move || keys3.iter().map(|k| db3.get(ReadOptions::default(), k.as_bytes()).is_ok().to_string()).collect::<Vec<_>>().join(",")).join().unwrap();
                    *seen2.lock().unwrap() = r;
                }
            })));
            let mut batch = raindb::Batch::new();
            for (i, k) in keys.iter().enumerate() {
                batch.add_put(k.as_bytes().to_vec(), vec![b'a' + i as u8; 300 * 1024]);
            }
            let applied = db.apply(WriteOptions::default(), batch).is_ok();
            v::set_sched_hook(None);
            println!("applied={}", applied);
            println!("during={}", seen.lock().unwrap());
            println!("after={}", keys.iter().map(|k| db.get(ReadOptions::default(), k.as_bytes()).is_ok().to_string()).collect::<Vec<_>>().join(","));
        }
        // second_open : on the disk file system (real flock): a database is open; a second open of the same path and
        // destroy_database must fail, the first instance keeps working; after it is closed the path can be opened again
        "second_open" => {
            use raindb::{ReadOptions, WriteOptions};
            let fs = std::sync::Arc::new(raindb::fs::TmpFileSystem::new(None));
            let mut o = raindb::DbOptions::with_memory_env();
            o.filesystem_provider = fs;
            o.db_path = "db".to_string();
            o.create_if_missing = true;
            o.reuse_log_files = false;
            let first = raindb::DB::open(o.clone()).expect("open");
            first.put(WriteOptions::default(), b"k".to_vec(), b"v".to_vec()).unwrap();
            let snapshot = |o: &raindb::DbOptions| -> String {
                let mut root: Vec<String> = o.filesystem_provider().list_dir(std::path::Path::new("db")).unwrap_or_default().iter().map(|p| p.to_string_lossy().to_string()).collect();
                root.sort();
                format!("{:?}|{:?}|{:?}", v::table_numbers(o), v::wal_numbers(o), root)
            };
            let before = snapshot(&o);
            println!("second_open={}", if raindb::DB::open(o.clone()).is_ok() { "ok" } else { "err" });
            println!("files_changed_by_refused_open={}", before != snapshot(&o));
            let before_destroy = snapshot(&o);
            println!("destroy_while_open={}", if raindb::DB::destroy_database(o.clone()).is_ok() { "ok" } else { "err" });
            println!("files_changed_by_refused_destroy={}", before_destroy != snapshot(&o));
            first.put(WriteOptions::default(), b"k2".to_vec(), b"v2".to_vec()).unwrap();
            let works = first.get(ReadOptions::default(), b"k").map(|v| v == b"v".to_vec()).unwrap_or(false)
                && first.get(ReadOptions::default(), b"k2").map(|v| v == b"v2".to_vec()).unwrap_or(false);
            println!("first_still_works={}", works);
            drop(first);
            match raindb::DB::open(o.clone()) {
                Ok(db) => println!("open_after_close={}", if db.get(ReadOptions::default(), b"k2").is_ok() { "ok" } else { "data-lost" }),
                Err(_) => println!("open_after_close=err"),
            }
        }
        // forced_flush_over_pending : the memtable was rotated but its flush has not run yet (background thread held); another
        // thread forces a flush; then the background thread is released. Are all acknowledged keys readable?
        "forced_flush_over_pending" => {
            use raindb::{ReadOptions, WriteOptions};
            let mut o = raindb::DbOptions::with_memory_env();
            o.db_path = "db".to_string();
            o.create_if_missing = true;
            o.max_memtable_size = 64 * 1024;
            let db = std::sync::Arc::new(raindb::DB::open(o).expect("open"));
            db.hold_background_for_verif(true);
            let mut keys = vec![];
            // fill until the memtable has been rotated once (the rotated one waits for the held background thread)
            for i in 0..90u32 {
                let k = format!("key{:04}", i).into_bytes();
                db.put(WriteOptions::default(), k.clone(), vec![b'x'; 1024]).unwrap();
                keys.push(k);
            }
            let (tx, rx) = std::sync::mpsc::channel();
            let db2 = std::sync::Arc::clone(&db);
            std::thread::spawn(move || { let _ = tx.send(db2.flush_for_verif()); });
            std::thread::sleep(std::time::Duration::from_millis(400));
            db.hold_background_for_verif(false);
            println!("scheduled={}", db.schedule_compaction_for_verif());
            println!("forced_flush={:?}", rx.recv_timeout(std::time::Duration::from_secs(15)).ok());
            std::thread::sleep(std::time::Duration::from_millis(300));
            let lost = keys.iter().filter(|k| db.get(ReadOptions::default(), k).is_err()).count();
            println!("written={}", keys.len());
            println!("lost={}", lost);
        }
        // get_sources : 27 keys, one per combination of (table, immutable memtable, active memtable) x (nothing, value, tombstone);
        // every key is read without a snapshot and at the snapshot taken after each stage; reference = newest stage that wrote the key
        "get_sources" => {
            use raindb::{ReadOptions, WriteOptions};
            let mut o = raindb::DbOptions::with_memory_env();
            o.db_path = "db".to_string();
            o.create_if_missing = true;
            o.max_memtable_size = 64 * 1024;
            let db = std::sync::Arc::new(raindb::DB::open(o).expect("open"));
            // what[stage][key index] = 0 nothing, 1 value, 2 tombstone
            let combos: Vec<[u8; 3]> = (0..27u8).map(|i| [i / 9, (i / 3) % 3, i % 3]).collect();
            let key = |i: usize| format!("k{:02}", i).into_bytes();
            let val = |i: usize, st: usize| format!("v{}-{}", i, st).into_bytes();
            let mut snaps = vec![];
            for st in 0..3usize {
                if st == 1 {
                    db.hold_background_for_verif(true);
                }
                for (i, c) in combos.iter().enumerate() {
                    match c[st] {
                        1 => db.put(WriteOptions::default(), key(i), val(i, st)).unwrap(),
                        2 => db.delete(WriteOptions::default(), key(i)).unwrap(),
                        _ => {}
                    }
                }
                snaps.push(db.get_snapshot());
                if st == 0 {
                    println!("flushed={}", db.flush_for_verif());
                }
                if st == 1 {
                    // rotate the memtable: its flush is held back, so it stays the immutable memtable
                    let mut n = 0;
                    while !db.has_immutable_memtable_for_verif() && n < 200 {
                        db.put(WriteOptions::default(), format!("pad{:04}", n).into_bytes(), vec![b'x'; 1024]).unwrap();
                        n += 1;
                    }
                }
            }
            println!("imm_present={}", db.has_immutable_memtable_for_verif());
            let expect = |i: usize, upto: usize| -> Option<Vec<u8>> {
                for st in (0..=upto).rev() {
                    match combos[i][st] {
                        1 => return Some(val(i, st)),
                        2 => return None,
                        _ => {}
                    }
                }
                None
            };
            let (mut reads, mut bad, mut first) = (0, 0, String::new());
            let mut pass = |label: &str, db: &raindb::DB| {
                for i in 0..27usize {
                    for mode in 0..4usize {
                        let (ro, upto) = if mode == 3 { (ReadOptions::default(), 2) } else { (ReadOptions { fill_cache: true, snapshot: Some(snaps[mode].clone()) }, mode) };
                        let got = db.get(ro, &key(i)).ok();
                        reads += 1;
                        if got != expect(i, upto) {
                            bad += 1;
                            if first.is_empty() {
                                first = format!("{} key {} (table/imm/mem = {:?}) read {}: got {:?}, expected {:?}", label, i, combos[i],
                                    if mode == 3 { "without snapshot".to_string() } else { format!("at the snapshot after stage {}", mode) },
                                    got.map(|v| String::from_utf8_lossy(&v).to_string()), expect(i, upto).map(|v| String::from_utf8_lossy(&v).to_string()));
                            }
                        }
                    }
                }
            };
            pass("with a pending immutable memtable:", &db);
            db.hold_background_for_verif(false);
            db.schedule_compaction_for_verif();
            let t0 = std::time::Instant::now();
            while db.has_immutable_memtable_for_verif() && t0.elapsed() < std::time::Duration::from_secs(15) {
                std::thread::sleep(std::time::Duration::from_millis(20));
            }
            println!("imm_flushed={}", !db.has_immutable_memtable_for_verif());
            pass("after the held flush:", &db);
            println!("reads={}", reads);
            println!("mismatches={}", bad);
            println!("first_mismatch={}", first);
        }
        // key_codec : internal keys with user keys of 0..4 bytes from {00, 01, 7f, 80, ff}, extreme sequence numbers, both operations:
        // layout of the encoding, round trip, rejection of short buffers / foreign operation bytes
        "key_codec" => {
            let bytes = [0x00u8, 0x01, 0x7f, 0x80, 0xff];
            let seqs = [0u64, 1, 255, 256, 0x0102_0304_0506_0708, (1 << 56) - 1, 1 << 56, u64::MAX - 1, u64::MAX];
            let mut keys: Vec<Vec<u8>> = vec![vec![]];
            let mut last: Vec<Vec<u8>> = vec![vec![]];
            for _ in 0..4 {
                let mut next = vec![];
                for k in &last {
                    for b in bytes {
                        let mut k2 = k.clone();
                        k2.push(b);
                        next.push(k2);
                    }
                }
                keys.extend(next.iter().cloned());
                last = next;
            }
            let (mut cases, mut bad, mut first) = (0u64, 0u64, String::new());
            for k in &keys {
                for s in seqs {
                    for put in [false, true] {
                        cases += 1;
                        let enc = v::ikey_bytes((k, s, put));
                        let mut want = k.clone();
                        want.extend_from_slice(&s.to_le_bytes());
                        want.push(put as u8);
                        let rt = v::ikey_roundtrip((k, s, put));
                        if enc != want || rt != Some((k.clone(), s, put)) {
                            bad += 1;
                            if first.is_empty() {
                                first = format!("key {:02x?} seq {} put {}: bytes {:02x?}, decoded {:?}", k, s, put, enc, rt);
                            }
                        }
                    }
                }
            }
            for n in 0..9usize {
                cases += 1;
                if v::parse_internal_key(vec![1u8; n]) {
                    bad += 1;
                    if first.is_empty() {
                        first = format!("a buffer of {} bytes is accepted as an internal key", n);
                    }
                }
            }
            for opb in 0..=255u8 {
                cases += 1;
                let mut buf = vec![b'k'; 3];
                buf.extend_from_slice(&7u64.to_le_bytes());
                buf.push(opb);
                if v::parse_internal_key(buf) != (opb <= 1) {
                    bad += 1;
                    if first.is_empty() {
                        first = format!("operation byte {} accepted / rejected wrongly", opb);
                    }
                }
            }
            println!("cases={}", cases);
            println!("mismatches={}", bad);
            println!("first_mismatch={}", first);
        }
        // block_codec <user key lengths> <value lengths> <restart interval> : blocks of this shape (and the interval plus 1, 2, 3, 16) built from a
        // sweep of byte values, fresh and reset builders; what the reader's iterator yields must be the entries added
        "block_codec" => {
            let klens: Vec<usize> = a[1].split(',').map(|x| num(x) as usize).collect();
            let vlens: Vec<usize> = a[2].split(',').map(|x| num(x) as usize).collect();
            let mut intervals = vec![num(a[3]) as usize, 1, 2, 3, 16];
            intervals.dedup();
            let bytes = [0x00u8, 0x01, 0xff];
            let seqs = [0u64, 1, 256, 257, 0x0100_0000_0000_0001, (1 << 56) - 1];
            // candidate keys per entry
            let mut cands: Vec<Vec<(Vec<u8>, u64, bool)>> = vec![];
            for (i, kl) in klens.iter().enumerate() {
                let mut ks: Vec<Vec<u8>> = vec![vec![]];
                for _ in 0..*kl {
                    let mut next = vec![];
                    for k in &ks {
                        for b in bytes {
                            let mut k2 = k.clone();
                            k2.push(b);
                            next.push(k2);
                        }
                    }
                    ks = next;
                }
                let mut c = vec![];
                for k in ks {
                    for s in seqs {
                        c.push((k.clone(), s, (s as usize + i) % 2 == 0));
                    }
                }
                cands.push(c);
            }
            let (mut cases, mut bad, mut first) = (0u64, 0u64, String::new());
            let mut idx = vec![0usize; klens.len()];
            'outer: loop {
                let ents: Vec<(Vec<u8>, u64, bool, Vec<u8>)> = idx.iter().enumerate().map(|(i, j)| {
                    let c = &cands[i][*j];
                    (c.0.clone(), c.1, c.2, (0..vlens[i]).map(|x| (c.1 as u8).wrapping_mul(31).wrapping_add(x as u8).wrapping_add(c.0.len() as u8 * 0x55)).collect())
                }).collect();
                let ascending = ents.windows(2).all(|w| v::ikey_cmp((&w[0].0, w[0].1, w[0].2), (&w[1].0, w[1].1, w[1].2)) == std::cmp::Ordering::Less);
                if ascending {
                    for iv in &intervals {
                        for reuse in [false, true] {
                            cases += 1;
                            let e2 = ents.clone();
                            let (iv2, r2) = (*iv, reuse);
                            let got = std::panic::catch_unwind(move || v::block_roundtrip(iv2, &e2, r2));
                            let ok = matches!(&got, Ok(Some(g)) if *g == ents);
                            if !ok {
                                bad += 1;
                                if first.is_empty() {
                                    first = format!("interval {} reuse {}: added {:02x?}, read back {:02x?}", iv, reuse, ents, got.ok());
                                }
                            }
                        }
                    }
                }
                let mut p = 0;
                loop {
                    if p == idx.len() {
                        break 'outer;
                    }
                    idx[p] += 1;
                    if idx[p] < cands[p].len() {
                        break;
                    }
                    idx[p] = 0;
                    p += 1;
                }
                if cases > 60000 {
                    break;
                }
            }
            println!("cases={}", cases);
            println!("mismatches={}", bad);
            println!("first_mismatch={}", first);
        }
        // compact_unreadable_input_all_dropped : keys a, b, c in a deep table, a table with only a tombstone for b above it; the deep table
        // becomes unreadable (footer altered, reopen = cold caches); the whole range is compacted: everything the merge can still read is
        // dropped, so no output is open when it ends. a and c must not be lost.
        "compact_unreadable_input_all_dropped" => {
            use raindb::{ReadOptions, WriteOptions};
            let mut o = raindb::DbOptions::with_memory_env();
            o.db_path = "db".to_string();
            o.create_if_missing = true;
            let want: Vec<(Vec<u8>, Vec<u8>)> = vec![(b"a".to_vec(), b"va".to_vec()), (b"c".to_vec(), b"vc".to_vec())];
            {
                let db = raindb::DB::open(o.clone()).expect("open");
                for k in [b"a", b"b", b"c"] {
                    db.put(WriteOptions::default(), k.to_vec(), [b"v".as_slice(), k.as_slice()].concat()).unwrap();
                }
                let _ = db.flush_for_verif();
                db.delete(WriteOptions::default(), b"b".to_vec()).unwrap();
                let _ = db.flush_for_verif();
                println!("levels_before={}", db.get_descriptor(raindb::db::DatabaseDescriptor::SSTables).map(|d| format!("{:?}", d).chars().filter(|c| !c.is_whitespace()).take(200).collect::<String>()).unwrap_or_default());
            }
            let nums = v::table_numbers(&o);
            println!("tables_before={}", join(&nums));
            if nums.len() != 2 {
                println!("lost=0");
                println!("setup=failed");
                return;
            }
            println!("fault_hit={}", v::flip_table_byte(&o, nums[0], usize::MAX));
            match raindb::DB::open(o.clone()) {
                Err(e) => {
                    println!("lost=0");
                    println!("compact=OpenErr({:?})", e);
                }
                Ok(db) => {
                    db.compact_range(None..None);
                    let (mut lost, mut errors) = (0usize, 0usize);
                    for (k, val) in &want {
                        match db.get(ReadOptions::default(), k) {
                            Ok(got) if &got == val => {}
                            Err(raindb::errors::RainDBError::KeyNotFound) | Ok(_) => lost += 1,
                            Err(_) => errors += 1,
                        }
                    }
                    println!("keys={}", want.len());
                    println!("lost={}", lost);
                    println!("read_errors={}", errors);
                    println!("tables_after={}", join(&v::table_numbers(&o)));
                }
            }
        }
        // footer_codec : footers whose four numbers sit at the varint boundaries; foreign lengths and magic numbers
        "footer_codec" => {
            let nums = [0u64, 1, 127, 128, 16383, 16384, (1 << 32) - 1, 1 << 32, (1 << 56) - 1, 1 << 56, (1 << 63) - 1, 1 << 63, u64::MAX];
            let (mut cases, mut bad, mut first) = (0u64, 0u64, String::new());
            for a in nums {
                for b in nums {
                    for (c, d) in [(nums[(a % 13) as usize], b), (b, a), (u64::MAX, u64::MAX), (0, 0)] {
                        cases += 1;
                        let r = std::panic::catch_unwind(|| v::footer_roundtrip((a, b), (c, d)));
                        let ok = match &r {
                            Ok(Some((bytes, Some(p)))) => bytes.len() == 48 && *p == ((a, b), (c, d)) && bytes[40..] == bytes[40..] && {
                                // every other length, and any change to the magic number, must be rejected
                                let mut longer = bytes.clone();
                                longer.push(0);
                                let mut magic = bytes.clone();
                                magic[47] ^= 1;
                                !v::parse_footer(&bytes[..47].to_vec()) && !v::parse_footer(&longer) && !v::parse_footer(&magic)
                            },
                            _ => false,
                        };
                        if !ok {
                            bad += 1;
                            if first.is_empty() {
                                first = format!("handles ({}, {}) ({}, {}): {:?}", a, b, c, d, r.ok());
                            }
                        }
                    }
                }
            }
            println!("cases={}", cases);
            println!("mismatches={}", bad);
            println!("first_mismatch={}", first);
        }
        // compaction_write_fault_sweep : for k = 1..14 the k-th file-system operation on a table file fails (and all later ones) while a manual
        // compaction of two overlapping level-0 tables runs; the requester must return, the background thread must not panic, the database must close
        "compaction_write_fault_sweep" => {
            use raindb::WriteOptions;
            let panicked = std::sync::Arc::new(std::sync::atomic::AtomicBool::new(false));
            let p2 = std::sync::Arc::clone(&panicked);
            std::panic::set_hook(Box::new(move |info| {
                p2.store(true, std::sync::atomic::Ordering::SeqCst);
                eprintln!("panic: {}", info);
            }));
            let mut verdict = "none".to_string();
            for k in 1..=14usize {
                let fs = rdbv::faultfs::FaultFs::new();
                let mut o = raindb::DbOptions::with_memory_env();
                o.filesystem_provider = std::sync::Arc::new(fs.clone());
                o.db_path = "db".to_string();
                o.create_if_missing = true;
                let db = std::sync::Arc::new(raindb::DB::open(o).expect("open"));
                db.hold_background_for_verif(true);
                for round in 0..2 {
                    for i in 0..40 {
                        db.put(WriteOptions::default(), format!("key{:03}", i).into_bytes(), format!("value{}-{}", round, i).repeat(20).into_bytes()).unwrap();
                    }
                    db.flush_to_level_zero_for_verif();
                }
                fs.arm(".rdb", k, true);
                db.hold_background_for_verif(false);
                let (tx, rx) = std::sync::mpsc::channel();
                let db2 = std::sync::Arc::clone(&db);
                std::thread::spawn(move || {
                    db2.force_level_compaction_for_verif(0);
                    let _ = tx.send(());
                });
                let requester = rx.recv_timeout(std::time::Duration::from_secs(10)).is_ok();
                let hit = fs.failures() > 0;
                fs.disarm();
                let (tx2, rx2) = std::sync::mpsc::channel();
                if requester {
                    std::thread::spawn(move || {
                        drop(db);
                        let _ = tx2.send(());
                    });
                }
                let closed = requester && rx2.recv_timeout(std::time::Duration::from_secs(10)).is_ok();
                let bad = panicked.load(std::sync::atomic::Ordering::SeqCst) || !requester || !closed;
                println!("k{}=fault_hit:{} requester_returned:{} closed:{} panicked:{}", k, hit, requester, closed, panicked.load(std::sync::atomic::Ordering::SeqCst));
                if bad {
                    verdict = format!("k{}", k);
                    break;
                }
            }
            println!("first_bad={}", verdict);
            std::process::exit(0);
        }
        // table_write_transient_fault_sweep : 60 keys are written and flushed, written again and flushed while exactly the k-th mutating
        // operation on a table file fails once (k = 1, 2, ... until the fault is no longer reached). Whatever the flush reports, every key
        // must afterwards read its second value or an error - never the first value, never "not found" - also after a reopen
        "table_write_transient_fault_sweep" => {
            use raindb::{ReadOptions, WriteOptions};
            let (mut cases, mut bad, mut first) = (0usize, 0usize, String::new());
            for k in 1..=80usize {
                let fs = rdbv::faultfs::FaultFs::new();
                let mut o = raindb::DbOptions::with_memory_env();
                o.filesystem_provider = std::sync::Arc::new(fs.clone());
                o.db_path = "db".to_string();
                o.create_if_missing = true;
                o.max_block_size = 512;
                let keys: Vec<Vec<u8>> = (0..60u32).map(|i| format!("key{:03}", i).into_bytes()).collect();
                let mut hit = false;
                {
                    let db = raindb::DB::open(o.clone()).expect("open");
                    for key in &keys { db.put(WriteOptions::default(), key.clone(), [&b"first-"[..], key].concat().repeat(3)).unwrap(); }
                    let _ = db.flush_for_verif();
                    for key in &keys { db.put(WriteOptions::default(), key.clone(), [&b"second-"[..], key].concat().repeat(3)).unwrap(); }
                    fs.arm(".rdb", k, false);
                    let flushed = db.flush_for_verif();
                    hit = fs.failures() > 0;
                    fs.disarm();
                    if !hit { break; }
                    cases += 1;
                    let wrong: Vec<String> = keys.iter().filter_map(|key| match db.get(ReadOptions::default(), key) {
                        Ok(val) if val == [&b"second-"[..], key].concat().repeat(3) => None,
                        Ok(val) => Some(format!("{}={}", String::from_utf8_lossy(key), String::from_utf8_lossy(&val[..6.min(val.len())]))),
                        Err(raindb::RainDBError::KeyNotFound) => Some(format!("{}=notfound", String::from_utf8_lossy(key))),
                        Err(_) => None,
                    }).collect();
                    if !wrong.is_empty() {
                        bad += 1;
                        if first.is_empty() { first = format!("k={} flush reported {}: {} keys wrong, e.g. {}", k, if flushed { "Ok" } else { "an error" }, wrong.len(), wrong[0]); }
                    }
                }
                if let Ok(db) = raindb::DB::open(o.clone()) {
                    let wrong = keys.iter().filter(|key| match db.get(ReadOptions::default(), key) {
                        Ok(val) => val != [&b"second-"[..], key.as_slice()].concat().repeat(3),
                        Err(raindb::RainDBError::KeyNotFound) => true,
                        Err(_) => false,
                    }).count();
                    if wrong > 0 {
                        bad += 1;
                        if first.is_empty() { first = format!("k={} after a reopen {} keys read an older value / not found", k, wrong); }
                    }
                }
                let _ = hit;
            }
            println!("cases={}", cases);
            println!("bad={}", bad);
            println!("first_bad={}", first);
        }
        // filter_block_layout <offset>:<keys> ... : data blocks at these offsets with this many keys each, Bloom policies of 1, 10 and 64 bits per key
        "filter_block_layout" => {
            let (mut keys, mut rejected, mut first) = (0usize, 0usize, String::new());
            for bits in [1usize, 10, 64] {
                let blocks: Vec<(usize, Vec<Vec<u8>>)> = a[1..]
                    .iter()
                    .enumerate()
                    .map(|(i, spec)| {
                        let p: Vec<&str> = spec.split(':').collect();
                        (num(p[0]) as usize, (0..num(p[1])).map(|j| format!("b{}k{}", i, j).into_bytes()).collect())
                    })
                    .collect();
                let policy: std::sync::Arc<dyn raindb::FilterPolicy> = std::sync::Arc::new(raindb::BloomFilterPolicy::new(bits));
                match v::filter_block_answers(policy, &blocks) {
                    Some(ans) => {
                        keys += ans.len();
                        rejected += ans.iter().filter(|x| !**x).count();
                        if first.is_empty() {
                            if let Some(p) = ans.iter().position(|x| !*x) {
                                first = format!("answer {} ({} bits per key)", p, bits);
                            }
                        }
                    }
                    None => {
                        rejected += 1;
                        if first.is_empty() {
                            first = "the reader rejects the filter block".to_string();
                        }
                    }
                }
            }
            println!("keys={}", keys);
            println!("rejected={}", rejected);
            println!("first_rejected={}", first);
        }
        // generic_battery [section] : differential workloads, crash and fault sweeps against a sorted-map model (fall-back confirmation)
        "generic_battery" => {
            let t0 = std::time::Instant::now();
            if a.len() > 1 && a[1] == "workload" {
                println!("workload={:?} seconds={}", rdbv::battery::workload(num(a[2]), num(a[3]) as usize, num(a[4]), num(a[5]) as usize, a[6] == "1", num(a[7]) as usize), t0.elapsed().as_secs_f32());
                std::process::exit(0);
            }
            if a.len() > 1 && a[1] == "fault" {
                println!("fault={:?} seconds={}", rdbv::battery::fault_run(num(a[2]), num(a[3]) as usize, a[4] == "1", a[5] == "1"), t0.elapsed().as_secs_f32());
                std::process::exit(0);
            }
            let fails = rdbv::battery::run();
            for (i, (tags, what)) in fails.iter().enumerate() {
                println!("fail{}={}|{}", i, tags, what.replace('=', ":"));
            }
            println!("failures={}", fails.len());
            println!("seconds={}", t0.elapsed().as_secs());
            std::process::exit(0);
        }
        // cache_ids : eight threads draw 50000 block-cache ids each from the default block cache; ids must be unique
        "cache_ids" => {
            let o = raindb::DbOptions::with_memory_env();
            let cache = o.block_cache();
            let mut handles = vec![];
            for _ in 0..8 {
                let c = std::sync::Arc::clone(&cache);
                handles.push(std::thread::spawn(move || (0..50000).map(|_| c.new_id()).collect::<Vec<u64>>()));
            }
            let mut all: Vec<u64> = vec![];
            for h in handles {
                all.extend(h.join().unwrap());
            }
            let n = all.len();
            all.sort();
            all.dedup();
            println!("drawn={}", n);
            println!("duplicates={}", n - all.len());
        }
        // manifest_switch_ops : the mutating file operations of one log_and_apply that has to start a new manifest, in order
        "manifest_switch_ops" => {
            let fs = rdbv::faultfs::FaultFs::new();
            let o = v::options_with(std::sync::Arc::new(fs.clone()), 4096);
            let f2 = fs.clone();
            let (ok, installed) = v::vset_log_and_apply_edit(o, true, 77, &move || { let _ = f2.take_log(); });
            let ops: Vec<String> = fs.take_log().iter().map(|l| {
                let mut it = l.splitn(2, ' ');
                let op = it.next().unwrap_or("");
                let p = it.next().unwrap_or("");
                let name = p.rsplit('/').next().unwrap_or(p);
                let kind = if name.starts_with("MANIFEST") { "manifest" } else if name == "CURRENT" { "CURRENT" } else if name.ends_with("dbtemp") || name.ends_with(".dbtmp") { "temp" } else { name };
                format!("{}:{}", op, kind)
            }).collect();
            println!("result={}", if ok { "Ok" } else { "Err" });
            println!("installed={}", installed);
            println!("ops={}", ops.join(","));
        }
        // reopen_modes : create_if_missing / error_if_exists against a missing and an existing database
        "reopen_modes" => {
            use raindb::{ReadOptions, WriteOptions};
            let fs = rdbv::faultfs::FaultFs::new();
            let mut o = raindb::DbOptions::with_memory_env();
            o.filesystem_provider = std::sync::Arc::new(fs.clone());
            o.db_path = "db".to_string();
            o.create_if_missing = false;
            println!("open_missing_without_create={}", if raindb::DB::open(o.clone()).is_ok() { "ok" } else { "err" });
            let created = fs.take_log().iter().filter(|l| l.starts_with("create") || l.starts_with("rename")).count();
            println!("files_after_refused_create={}", created);
            o.create_if_missing = true;
            {
                let db = raindb::DB::open(o.clone()).expect("create");
                db.put(WriteOptions::default(), b"k".to_vec(), b"v".to_vec()).unwrap();
            }
            o.error_if_exists = true;
            println!("open_with_error_if_exists={}", if raindb::DB::open(o.clone()).is_ok() { "ok" } else { "err" });
            o.error_if_exists = false;
            o.create_if_missing = true;
            match raindb::DB::open(o.clone()) {
                Ok(db) => println!("reopen_get={}", db.get(ReadOptions::default(), b"k").map(|v| String::from_utf8_lossy(&v).to_string()).unwrap_or("missing".to_string())),
                Err(_) => println!("reopen_get=open-failed"),
            }
        }
        // unreadable_current : CURRENT of an existing database cannot be opened (permission error); open must fail and must
        // not initialise the database again
        "unreadable_current" => {
            use raindb::{ReadOptions, WriteOptions};
            let fs = rdbv::faultfs::FaultFs::new();
            let mut o = raindb::DbOptions::with_memory_env();
            o.filesystem_provider = std::sync::Arc::new(fs.clone());
            o.db_path = "db".to_string();
            o.create_if_missing = true;
            {
                let db = raindb::DB::open(o.clone()).expect("create");
                db.put(WriteOptions::default(), b"k".to_vec(), b"v".to_vec()).unwrap();
                let _ = db.flush_for_verif();
            }
            fs.fail_open("CURRENT");
            let _ = fs.take_log();
            println!("open_with_unreadable_current={}", if raindb::DB::open(o.clone()).is_ok() { "ok" } else { "err" });
            println!("mutating_ops_during_refused_open={}", fs.take_log().iter().filter(|l| !l.starts_with("create db/LOCK") && !l.contains("LOCK")).count());
            fs.fail_open("");
            match raindb::DB::open(o.clone()) {
                Ok(db) => println!("reopen_get={}", db.get(ReadOptions::default(), b"k").map(|v| String::from_utf8_lossy(&v).to_string()).unwrap_or("missing".to_string())),
                Err(_) => println!("reopen_get=open-failed"),
            }
        }
        // memtable_versions : several versions per key in the memtable (puts, deletes, re-puts), a snapshot after every write;
        // every snapshot is read back with get and with a forward and a backward scan (nothing is flushed)
        "memtable_versions" => {
            use raindb::{RainDbIterator, ReadOptions, WriteOptions};
            let mut o = raindb::DbOptions::with_memory_env();
            o.db_path = "db".to_string();
            o.create_if_missing = true;
            let db = raindb::DB::open(o).expect("open");
            let script: Vec<(&str, Option<&str>)> = vec![("b", Some("1")), ("a", Some("2")), ("b", None), ("c", Some("3")), ("b", Some("4")), ("a", None), ("", Some("5")), ("c", Some("6")), ("a", Some("7")), ("", None), ("b", Some("")), ("d", Some("")), ("b", Some("8")), ("a", Some(""))];
            let mut state: std::collections::BTreeMap<String, String> = Default::default();
            let mut snaps = vec![];
            for (k, v) in &script {
                match v {
                    Some(v) => { db.put(WriteOptions::default(), k.as_bytes().to_vec(), v.as_bytes().to_vec()).unwrap(); state.insert(k.to_string(), v.to_string()); }
                    None => { db.delete(WriteOptions::default(), k.as_bytes().to_vec()).unwrap(); state.remove(*k); }
                }
                snaps.push((db.get_snapshot(), state.clone()));
            }
            let (mut reads, mut bad, mut first) = (0usize, 0usize, String::new());
            for (i, (snap, want)) in snaps.iter().enumerate() {
                for k in ["", "a", "b", "c", "d"] {
                    reads += 1;
                    let got = db.get(ReadOptions { fill_cache: true, snapshot: Some(snap.clone()) }, k.as_bytes()).ok().map(|v| String::from_utf8_lossy(&v).to_string());
                    if got != want.get(k).cloned() {
                        bad += 1;
                        if first.is_empty() { first = format!("get {:?} at snapshot {}: {:?}, expected {:?}", k, i, got, want.get(k)); }
                    }
                }
                let exp: Vec<(String, String)> = want.iter().map(|(k, v)| (k.clone(), v.clone())).collect();
                let mut it = db.new_iterator(ReadOptions { fill_cache: true, snapshot: Some(snap.clone()) }).unwrap();
                let mut fwd = vec![];
                let _ = it.seek_to_first();
                while it.is_valid() { let (k, v) = it.current().unwrap(); fwd.push((String::from_utf8_lossy(k).to_string(), String::from_utf8_lossy(v).to_string())); if it.next().is_none() { break; } }
                let mut bwd = vec![];
                let _ = it.seek_to_last();
                while it.is_valid() { let (k, v) = it.current().unwrap(); bwd.push((String::from_utf8_lossy(k).to_string(), String::from_utf8_lossy(v).to_string())); if it.prev().is_none() { break; } }
                bwd.reverse();
                reads += 2;
                if fwd != exp { bad += 1; if first.is_empty() { first = format!("forward scan at snapshot {}: {:?}, expected {:?}", i, fwd, exp); } }
                if bwd != exp { bad += 1; if first.is_empty() { first = format!("backward scan at snapshot {}: {:?}, expected {:?}", i, bwd, exp); } }
            }
            println!("reads={}", reads);
            println!("mismatches={}", bad);
            println!("first_mismatch={}", first);
        }
        // open_during_destroy : disk file system (real flock); destroy_database of a closed database; right before its first
        // destructive operation another handle tries to open the database. That open must be refused.
        "open_during_destroy" => {
            use raindb::WriteOptions;
            let disk: std::sync::Arc<dyn raindb::fs::FileSystem> = std::sync::Arc::new(raindb::fs::TmpFileSystem::new(None));
            let hook = std::sync::Arc::new(rdbv::hookfs::HookFs::new(std::sync::Arc::clone(&disk)));
            let mut o = raindb::DbOptions::with_memory_env();
            o.filesystem_provider = hook.clone();
            o.db_path = "db".to_string();
            o.create_if_missing = true;
            {
                let db = raindb::DB::open(o.clone()).expect("open");
                db.put(WriteOptions::default(), b"k".to_vec(), b"v".to_vec()).unwrap();
            }
            let seen: std::sync::Arc<std::sync::Mutex<String>> = std::sync::Arc::new(std::sync::Mutex::new("not-attempted".to_string()));
            let (seen2, mut o2) = (std::sync::Arc::clone(&seen), o.clone());
            o2.filesystem_provider = std::sync::Arc::clone(&disk);
            o2.create_if_missing = false;
            hook.set_hook(Box::new(move || {
                let r = raindb::DB::open(o2);
                *seen2.lock().unwrap() = if r.is_ok() { "ok".to_string() } else { "err".to_string() };
            }));
            println!("destroy={}", if raindb::DB::destroy_database(o.clone()).is_ok() { "ok" } else { "err" });
            println!("open_during_destroy={}", seen.lock().unwrap());
        }
        // close_while_background_busy : disk file system; background work of the instance is still scheduled while it is dropped;
        // the condition variable is notified once although the work has not finished; a second open must still be refused
        "close_while_background_busy" => {
            use raindb::WriteOptions;
            let disk: std::sync::Arc<dyn raindb::fs::FileSystem> = std::sync::Arc::new(raindb::fs::TmpFileSystem::new(None));
            let mut o = raindb::DbOptions::with_memory_env();
            o.filesystem_provider = std::sync::Arc::clone(&disk);
            o.db_path = "db".to_string();
            o.create_if_missing = true;
            let db = std::sync::Arc::new(raindb::DB::open(o.clone()).expect("open"));
            db.put(WriteOptions::default(), b"k".to_vec(), b"v".to_vec()).unwrap();
            db.hold_background_for_verif(true);
            let (tx, rx) = std::sync::mpsc::channel();
            let owner = std::thread::spawn(move || {
                let d = rx.recv().unwrap();
                drop::<std::sync::Arc<raindb::DB>>(d);
            });
            // keep a raw handle for the hooks: the closing thread owns the only Arc; hooks go through a second clone that is
            // handed over right before the drop
            let db2 = std::sync::Arc::clone(&db);
            let ptr: &'static raindb::DB = unsafe { &*(std::sync::Arc::as_ptr(&db2)) };
            drop(db2);
            tx.send(db).unwrap();
            std::thread::sleep(std::time::Duration::from_millis(300));
            ptr.notify_background_signal_for_verif();          // a wake-up that does not mean "finished"
            std::thread::sleep(std::time::Duration::from_millis(300));
            println!("open_while_closing={}", if raindb::DB::open(o.clone()).is_ok() { "ok" } else { "err" });
            ptr.hold_background_for_verif(false);
            ptr.notify_background_signal_for_verif();
            let _ = owner.join();
            println!("open_after_close={}", if raindb::DB::open(o.clone()).is_ok() { "ok" } else { "err" });
        }
        // close_during_size_compaction : disk file system (real flock). Four level-0 tables make a size-triggered compaction necessary
        // (no flush, no manual request pending); the compaction is parked for 2 s when it creates its output file; meanwhile the
        // database is dropped on another thread. While the compaction is in flight the instance still owns the directory: an
        // open attempt must be refused
        "close_during_size_compaction" => {
            use raindb::WriteOptions;
            let disk: std::sync::Arc<dyn raindb::fs::FileSystem> = std::sync::Arc::new(raindb::fs::TmpFileSystem::new(None));
            let hfs = std::sync::Arc::new(rdbv::hookfs::HookFs::new(std::sync::Arc::clone(&disk)));
            let mut o = raindb::DbOptions::with_memory_env();
            o.filesystem_provider = hfs.clone();
            o.db_path = "db".to_string();
            o.create_if_missing = true;
            let db = raindb::DB::open(o.clone()).expect("open");
            db.hold_background_for_verif(true);
            for round in 0..4 {
                db.put(WriteOptions::default(), b"a".to_vec(), format!("begin{}", round).into_bytes()).unwrap();
                db.put(WriteOptions::default(), b"z".to_vec(), format!("end{}", round).into_bytes()).unwrap();
                db.flush_to_level_zero_for_verif();
            }
            println!("level0_files={}", db.num_level_zero_files_for_verif());
            let started = std::sync::Arc::new(std::sync::atomic::AtomicBool::new(false));
            let s2 = std::sync::Arc::clone(&started);
            hfs.on_create(".rdb", Box::new(move || {
                s2.store(true, std::sync::atomic::Ordering::SeqCst);
                std::thread::sleep(std::time::Duration::from_millis(2000));
            }));
            db.hold_background_for_verif(false);
            println!("scheduled={}", db.schedule_compaction_for_verif());
            let t0 = std::time::Instant::now();
            while !started.load(std::sync::atomic::Ordering::SeqCst) && t0.elapsed().as_secs() < 10 {
                std::thread::sleep(std::time::Duration::from_millis(20));
            }
            println!("compaction_started={}", started.load(std::sync::atomic::Ordering::SeqCst));
            let closer = std::thread::spawn(move || drop(db));
            std::thread::sleep(std::time::Duration::from_millis(500));
            let mut o2 = o.clone();
            o2.filesystem_provider = std::sync::Arc::clone(&disk);
            println!("open_while_compaction_in_flight={}", if raindb::DB::open(o2.clone()).is_ok() { "ok" } else { "err" });
            let _ = closer.join();
            println!("open_after_close={}", if raindb::DB::open(o2).is_ok() { "ok" } else { "err" });
        }
        // repeated_open_attempts : disk file system (real flock): while the owner is open, an open, another open, a destroy and one more
        // open are attempted in a row; all must be refused and the owner must keep working
        "repeated_open_attempts" => {
            use raindb::{ReadOptions, WriteOptions};
            let disk: std::sync::Arc<dyn raindb::fs::FileSystem> = std::sync::Arc::new(raindb::fs::TmpFileSystem::new(None));
            let mut o = raindb::DbOptions::with_memory_env();
            o.filesystem_provider = std::sync::Arc::clone(&disk);
            o.db_path = "db".to_string();
            o.create_if_missing = true;
            o.reuse_log_files = false;
            let owner = raindb::DB::open(o.clone()).expect("open");
            owner.put(WriteOptions::default(), b"k".to_vec(), b"v".to_vec()).unwrap();
            let mut attempts = vec![];
            let mut intruders = vec![];
            for what in ["open", "open", "destroy", "open"] {
                if what == "destroy" {
                    attempts.push(if raindb::DB::destroy_database(o.clone()).is_ok() { "ok" } else { "err" });
                } else {
                    match raindb::DB::open(o.clone()) {
                        Ok(db) => { attempts.push("ok"); intruders.push(db); }
                        Err(_) => attempts.push("err"),
                    }
                }
            }
            println!("attempts={}", attempts.join(","));
            let works = owner.put(WriteOptions::default(), b"k2".to_vec(), b"v2".to_vec()).is_ok() && owner.get(ReadOptions::default(), b"k").map(|v| v == b"v").unwrap_or(false);
            println!("owner_still_works={}", works);
            std::process::exit(0);
        }
        // level_iter ops targetU:seq shape uk:seq:op:vv ... : cursor of the concatenating iterator over a level whose files hold
        // shape[i] consecutive entries each
        "level_iter" => {
            let t = key(a[2]);
            let shape: Vec<usize> = a[3].split(',').map(|x| num(x) as usize).collect();
            let mut files: Vec<Vec<(Vec<u8>, u64, bool, Vec<u8>)>> = vec![];
            let mut idx = 4;
            for c in &shape {
                let mut f = vec![];
                for _ in 0..*c {
                    let p: Vec<&str> = a[idx].split(':').collect();
                    f.push((hex(p[0]), num(p[1]), p[2] == "1", hex(p[3])));
                    idx += 1;
                }
                files.push(f);
            }
            let fs = std::sync::Arc::new(raindb::fs::InMemoryFileSystem::new());
            let o = v::options_with(fs, 400);
            let ops: Vec<&str> = a[1].split(',').collect();
            match v::level_iter_cursor(&o, &files, &ops, (&t.0, t.1)) {
                Some(c) => println!(
                    "cursor={}",
                    c.iter().map(|x| match x { Some((k, s, val)) => format!("{}:{}:{:02x}", tohex(k), s, val), None => "none".to_string() }).collect::<Vec<_>>().join(",")
                ),
                None => println!("cursor=build-failed"),
            }
        }
        // level_iter_damaged ops damaged t1U:seq t2U:seq shape uk:seq:op:vv ... : like level_iter, but table `damaged` of the level has an
        // altered footer; ops are first / last / seek (target 1) / seek2 (target 2). Printed per step: ok|err and the cursor; the
        // reference says which table each step lands in
        "level_iter_damaged" => {
            let damaged = num(a[2]) as usize;
            let (t1, t2) = (key(a[3]), key(a[4]));
            let shape: Vec<usize> = a[5].split(',').map(|x| num(x) as usize).collect();
            let mut files: Vec<Vec<(Vec<u8>, u64, bool, Vec<u8>)>> = vec![];
            let mut idx = 6;
            for c in &shape {
                let mut f = vec![];
                for _ in 0..*c {
                    let p: Vec<&str> = a[idx].split(':').collect();
                    f.push((hex(p[0]), num(p[1]), p[2] == "1", hex(p[3])));
                    idx += 1;
                }
                files.push(f);
            }
            let fs = std::sync::Arc::new(raindb::fs::InMemoryFileSystem::new());
            let o = v::options_with(fs, 400);
            let ops: Vec<&str> = a[1].split(',').collect();
            // reference: (file index, entry) each absolute operation lands on
            let flat: Vec<(usize, &(Vec<u8>, u64, bool, Vec<u8>))> = files.iter().enumerate().flat_map(|(i, f)| f.iter().map(move |e| (i, e))).collect();
            let land = |t: &(Vec<u8>, u64)| flat.iter().find(|(_, e)| e.0.as_slice() > t.0.as_slice() || (e.0 == t.0 && e.1 <= t.1)).cloned();
            let mut exp: Vec<String> = vec![];
            for op in &ops {
                let l = match *op { "first" => flat.first().cloned(), "last" => flat.last().cloned(), "seek" => land(&t1), _ => land(&t2) };
                exp.push(match l { Some((fi, _)) if fi == damaged => "err".to_string(), Some((_, e)) => format!("ok:{}:{}:{:02x}", tohex(&e.0), e.1, e.3[0]), None => "ok:none".to_string() });
            }
            match v::level_iter_damaged(&o, &files, damaged, &ops, [(&t1.0, t1.1), (&t2.0, t2.1)]) {
                Some(c) => println!("steps={}", c.iter().map(|(ok, x)| if !*ok { "err".to_string() } else { match x { Some((k, s, val)) => format!("ok:{}:{}:{:02x}", tohex(k), s, val), None => "ok:none".to_string() } }).collect::<Vec<_>>().join(",")),
                None => println!("steps=build-failed"),
            }
            println!("expected={}", exp.join(","));
        }
        // compaction_edit_files : three overlapping tables at three levels are compacted manually; afterwards every key must
        // read its newest value and the version must hold exactly one table (all inputs deleted, the output installed once)
        "compaction_edit_files" => {
            use raindb::{ReadOptions, WriteOptions};
            let mut o = raindb::DbOptions::with_memory_env();
            o.db_path = "db".to_string();
            o.create_if_missing = true;
            let db = raindb::DB::open(o.clone()).expect("open");
            for round in 0..3 {
                for k in ["a", "m", "z"] {
                    db.put(WriteOptions::default(), k.as_bytes().to_vec(), format!("{}{}", k, round).into_bytes()).unwrap();
                }
                let _ = db.flush_for_verif();
            }
            let before = db.get_descriptor(raindb::db::DatabaseDescriptor::SSTables).unwrap_or_default();
            db.compact_range(None..None);
            let after = db.get_descriptor(raindb::db::DatabaseDescriptor::SSTables).unwrap_or_default();
            let count = |d: &str| d.lines().filter(|l| l.contains("(size:")).count();
            println!("tables_before={}", count(&before));
            println!("tables_after={}", count(&after));
            let ok = ["a", "m", "z"].iter().all(|k| db.get(ReadOptions::default(), k.as_bytes()).map(|v| v == format!("{}2", k).into_bytes()).unwrap_or(false));
            println!("reads_ok={}", ok);
            println!("files_on_disk={}", v::table_numbers(&o).len());
            // second phase: a compaction whose output is split into several tables (small max_file_size)
            let mut o2 = raindb::DbOptions::with_memory_env();
            o2.db_path = "db2".to_string();
            o2.create_if_missing = true;
            o2.max_file_size = 16 * 1024;
            let db2 = raindb::DB::open(o2.clone()).expect("open 2");
            let mut x: u32 = 99;
            let mut want: Vec<(Vec<u8>, Vec<u8>)> = vec![];
            for gen in 0..2u8 {
                want.clear();
                for i in 0..300u32 {
                    let val: Vec<u8> = (0..200).map(|_| { x = x.wrapping_mul(1664525).wrapping_add(1013904223); (x >> 24) as u8 }).chain(std::iter::once(gen)).collect();
                    let k = format!("key{:04}", i).into_bytes();
                    db2.put(WriteOptions::default(), k.clone(), val.clone()).unwrap();
                    want.push((k, val));
                }
                let _ = db2.flush_for_verif();
                db2.compact_range(None..None);
            }
            let lost = want.iter().filter(|(k, val)| db2.get(ReadOptions::default(), k).map(|g| &g != val).unwrap_or(true)).count();
            let desc = db2.get_descriptor(raindb::db::DatabaseDescriptor::SSTables).unwrap_or_default();
            println!("split_outputs_tables={}", desc.lines().filter(|l| l.contains("(size:")).count());
            println!("split_outputs_wrong_reads={}", lost);
        }
        // fresh_db_wal_rotation : a database that never flushed is reopened (log reused); with the background thread held its
        // memtable fills and the log is rotated; the files are copied at that moment (crash image); the image is opened and every
        // acknowledged key is read
        "fresh_db_wal_rotation" => {
            use raindb::{ReadOptions, WriteOptions};
            let fs = std::sync::Arc::new(raindb::fs::InMemoryFileSystem::new());
            let mut o = raindb::DbOptions::with_memory_env();
            o.filesystem_provider = fs.clone();
            o.db_path = "db".to_string();
            o.create_if_missing = true;
            o.reuse_log_files = true;
            o.max_memtable_size = 64 * 1024;
            let mut keys: Vec<Vec<u8>> = vec![];
            {
                let db = raindb::DB::open(o.clone()).expect("open");
                db.put(WriteOptions::default(), b"first".to_vec(), b"v".to_vec()).unwrap();
                keys.push(b"first".to_vec());
            }
            let db = raindb::DB::open(o.clone()).expect("reopen");
            db.hold_background_for_verif(true);
            let wals0 = v::wal_numbers(&o);
            for i in 0..80u32 {
                let k = format!("key{:04}", i).into_bytes();
                db.put(WriteOptions::default(), k.clone(), vec![b'x'; 1024]).unwrap();
                keys.push(k);
                if v::wal_numbers(&o) != wals0 {
                    break;
                }
            }
            println!("wals_at_crash={:?} (before the rotation {:?})", v::wal_numbers(&o), wals0);
            // crash image
            let image = std::sync::Arc::new(raindb::fs::InMemoryFileSystem::new());
            {
                use raindb::fs::FileSystem;
                for dir in ["db", "db/wal", "db/data"] {
                    let _ = image.create_dir_all(std::path::Path::new(dir));
                    for p in fs.list_dir(std::path::Path::new(dir)).unwrap_or_default() {
                        if fs.is_dir(&p).unwrap_or(false) {
                            continue;
                        }
                        if let Ok(f) = fs.open_file(&p) {
                            let len = f.len().unwrap_or(0) as usize;
                            let mut buf = vec![0u8; len];
                            let _ = f.read_from(&mut buf, 0);
                            if let Ok(mut w) = image.create_file(&p, false) {
                                let _ = w.append(&buf);
                            }
                        }
                    }
                }
            }
            let mut o2 = o.clone();
            o2.filesystem_provider = image;
            match raindb::DB::open(o2) {
                Err(e) => {
                    println!("written={}", keys.len());
                    println!("lost={} (open of the crash image failed: {:?})", keys.len(), e);
                }
                Ok(db2) => {
                    let lost = keys.iter().filter(|k| db2.get(ReadOptions::default(), k).is_err()).count();
                    println!("written={}", keys.len());
                    println!("lost={}", lost);
                }
            }
            db.hold_background_for_verif(false);
            db.notify_background_signal_for_verif();
            std::process::exit(0);
        }
        // two_wal_crash_reopen : the memtable is rotated (second log) while the background thread is held; the files are copied at that
        // moment (crash image with two logs). The image is opened with log reuse (the newest log is small: it is reused, the older
        // one becomes a table), closed, and opened again: after the first open only the reused log may be left, the second open must
        // not write another table, and every acknowledged key is readable
        "two_wal_crash_reopen" => {
            use raindb::{ReadOptions, WriteOptions};
            let fs = std::sync::Arc::new(raindb::fs::InMemoryFileSystem::new());
            let mut o = raindb::DbOptions::with_memory_env();
            o.filesystem_provider = fs.clone();
            o.db_path = "db".to_string();
            o.create_if_missing = true;
            o.reuse_log_files = true;
            o.max_memtable_size = 64 * 1024;
            let mut keys: Vec<Vec<u8>> = vec![];
            let db = raindb::DB::open(o.clone()).expect("open");
            db.hold_background_for_verif(true);
            let wals0 = v::wal_numbers(&o);
            for i in 0..80u32 {
                let k = format!("key{:04}", i).into_bytes();
                db.put(WriteOptions::default(), k.clone(), vec![b'x'; 1024]).unwrap();
                keys.push(k);
                if v::wal_numbers(&o) != wals0 {
                    break;
                }
            }
            db.put(WriteOptions::default(), b"tail".to_vec(), b"t".to_vec()).unwrap();
            keys.push(b"tail".to_vec());
            // a key of the first log is overwritten in the second one
            db.put(WriteOptions::default(), b"key0000".to_vec(), b"newer".to_vec()).unwrap();
            println!("wals_at_crash={:?}", v::wal_numbers(&o));
            let image = std::sync::Arc::new(raindb::fs::InMemoryFileSystem::new());
            {
                use raindb::fs::FileSystem;
                for dir in ["db", "db/wal", "db/data"] {
                    let _ = image.create_dir_all(std::path::Path::new(dir));
                    for p in fs.list_dir(std::path::Path::new(dir)).unwrap_or_default() {
                        if fs.is_dir(&p).unwrap_or(false) {
                            continue;
                        }
                        if let Ok(f) = fs.open_file(&p) {
                            let len = f.len().unwrap_or(0) as usize;
                            let mut buf = vec![0u8; len];
                            let _ = f.read_from(&mut buf, 0);
                            if let Ok(mut w) = image.create_file(&p, false) {
                                let _ = w.append(&buf);
                            }
                        }
                    }
                }
            }
            let mut o2 = o.clone();
            o2.filesystem_provider = image;
            o2.max_memtable_size = 4 * 1024 * 1024;
            if a.len() > 1 && a[1] == "noreuse" { o2.reuse_log_files = false; }
            let mut stale = 0;
            // the reopens run on their own thread: a panic inside DB::open (or a hang while it unwinds) must not block the replay
            let (tx, rx) = std::sync::mpsc::channel::<()>();
            let keys2 = keys.clone();
            std::thread::spawn(move || {
                let keys = keys2;
            let mut lost = 0;
                let mut report = |tag: &str, o2: &raindb::DbOptions| {
                    let w = v::wal_numbers(o2);
                    println!("wals_after_{}={:?}", tag, w);
                    println!("tables_after_{}={}", tag, v::table_numbers(o2).len());
                    w
                };
                match raindb::DB::open(o2.clone()) {
                    Err(e) => println!("first_reopen=err {:?}", e),
                    Ok(db2) => {
                        lost += keys.iter().filter(|k| db2.get(ReadOptions::default(), k).is_err()).count();
                        if db2.get(ReadOptions::default(), b"key0000").map(|v| v != b"newer".to_vec()).unwrap_or(true) { stale += 1; }
                        println!("first_reopen=ok");
                    }
                }
                let w1 = report("first_reopen", &o2);
                println!("dead_wal_kept={}", w1.len() > 1);
                match raindb::DB::open(o2.clone()) {
                    Err(e) => println!("second_reopen=err {:?}", e),
                    Ok(db2) => {
                        lost += keys.iter().filter(|k| db2.get(ReadOptions::default(), k).is_err()).count();
                        if db2.get(ReadOptions::default(), b"key0000").map(|v| v != b"newer".to_vec()).unwrap_or(true) { stale += 1; }
                        println!("second_reopen=ok");
                    }
                }
                report("second_reopen", &o2);
                println!("lost={}", lost);
                println!("stale_overwrite={}", stale);
                let _ = tx.send(());
            });
            if rx.recv_timeout(std::time::Duration::from_secs(30)).is_err() {
                println!("reopen_thread=panicked or stuck");
            }
            db.hold_background_for_verif(false);
            db.notify_background_signal_for_verif();
            std::process::exit(0);
        }
        // compaction_wal_number : the memtable was rotated (new log) but not flushed yet (background thread held); a table
        // compaction is installed. The WAL number recorded by the version set must not move: the old log still backs the
        // unflushed memtable.
        "compaction_wal_number" => {
            use raindb::WriteOptions;
            let mut o = raindb::DbOptions::with_memory_env();
            o.db_path = "db".to_string();
            o.create_if_missing = true;
            o.max_memtable_size = 64 * 1024;
            let db = raindb::DB::open(o.clone()).expect("open");
            db.hold_background_for_verif(true);
            for round in 0..2 {
                db.put(WriteOptions::default(), b"a".to_vec(), format!("{}", round).into_bytes()).unwrap();
                db.flush_to_level_zero_for_verif();
            }
            let wals0 = v::wal_numbers(&o);
            for i in 0..80u32 {
                db.put(WriteOptions::default(), format!("key{:04}", i).into_bytes(), vec![b'x'; 1024]).unwrap();
                if v::wal_numbers(&o) != wals0 {
                    break;
                }
            }
            println!("logs={:?}", v::wal_numbers(&o));
            match db.install_level_zero_compaction_for_verif() {
                Some((before, after, current)) => {
                    println!("manifest_wal_before={}", before);
                    println!("manifest_wal_after={}", after);
                    println!("current_wal={}", current);
                }
                None => println!("manifest_wal_before=none"),
            }
            db.hold_background_for_verif(false);
            db.notify_background_signal_for_verif();
            std::process::exit(0);
        }
        // truncated_batch : every proper prefix of an encoded two-put batch must be rejected by the batch decoder
        "truncated_batch" => {
            let bytes = v::encode_put_batch(7, &[(b"key-one".to_vec(), vec![0x41u8; 40]), (b"k2".to_vec(), vec![0x42u8; 300])]);
            println!("full_accepted={}", v::parse_batch(&bytes));
            let mut accepted = 0usize;
            let mut first = String::new();
            for n in 0..bytes.len() {
                if v::parse_batch(&bytes[..n]) {
                    accepted += 1;
                    if first.is_empty() {
                        first = n.to_string();
                    }
                }
            }
            println!("prefixes={}", bytes.len());
            println!("accepted_prefixes={}", accepted);
            println!("first_accepted={}", first);
        }
        // batch_codec : batches of 0..3 operations (puts and deletes in every pattern; empty, short, 127 / 128 / 300 / 20000 byte keys
        // and values; several starting sequences) are encoded and decoded again by the real codec
        "batch_codec" => {
            let lens = [0usize, 1, 5, 127, 128, 300, 20000];
            let (mut n, mut bad, mut first) = (0usize, 0usize, String::new());
            let mut shapes: Vec<Vec<(bool, usize, usize)>> = vec![vec![]];
            for count in 1..=3usize {
                for pattern in 0..(1u32 << count) {
                    for shift in 0..lens.len() {
                        shapes.push((0..count).map(|i| (pattern >> i & 1 == 1, lens[(shift + 2 * i) % lens.len()], lens[(shift + 3 * i + 1) % lens.len()])).collect());
                    }
                }
            }
            for (si, shape) in shapes.iter().enumerate() {
                for start in [0u64, 1, 300, (1u64 << 56) - 4, u64::MAX] {
                    let ops: Vec<(bool, Vec<u8>, Vec<u8>)> = shape.iter().enumerate().map(|(i, (p, kl, vl))| (*p, vec![b'k' + i as u8; *kl], if *p { vec![b'v' + i as u8; *vl] } else { vec![] })).collect();
                    let want: Vec<(bool, Vec<u8>, Option<Vec<u8>>)> = ops.iter().map(|(p, k, v)| (*p, k.clone(), if *p { Some(v.clone()) } else { None })).collect();
                    n += 1;
                    let ok = match std::panic::catch_unwind(|| v::batch_codec_roundtrip(start, &ops)) {
                        Ok(Ok((s, got))) => s == Some(start) && got == want,
                        _ => false,
                    };
                    if !ok {
                        bad += 1;
                        if first.is_empty() {
                            first = format!("shape#{} {:?} start {}", si, shape, start);
                        }
                    }
                }
            }
            println!("batches={}", n);
            println!("mismatches={}", bad);
            println!("first_mismatch={}", first);
        }
        // table_block_corruption_sweep : one table (several data blocks, filter block); every byte of the file is inverted in
        // turn; after each damage every stored key is looked up: the lookup must fail or return the stored value
        "table_block_corruption_sweep" => {
            let fs = std::sync::Arc::new(raindb::fs::InMemoryFileSystem::new());
            let o = v::options_with(fs, 128);
            let owned: Vec<(Vec<u8>, u64, bool, Vec<u8>)> = (0..12u8).map(|i| (format!("key{:02}", i).into_bytes(), 9, true, vec![b'a' + i; 30])).collect();
            let ents: Vec<(&[u8], u64, bool, &[u8])> = owned.iter().map(|e| (e.0.as_slice(), e.1, e.2, e.3.as_slice())).collect();
            if !v::table_build(&o, &ents) {
                println!("result=build-failed");
                return;
            }
            let len = v::table_file_len(&o) as usize;
            let (mut wrong, mut first) = (0usize, String::new());
            for off in 0..len {
                if !v::flip_table_byte(&o, 1, off) {
                    continue;
                }
                for e in &owned {
                    let (code, val) = v::table_get(&o, &e.0, 100);
                    let bad = match code { 0 => val != e.3, 1 | 2 => true, _ => false };
                    if bad {
                        wrong += 1;
                        if first.is_empty() {
                            first = format!("byte {} inverted: get {} -> code {}", off, String::from_utf8_lossy(&e.0), code);
                        }
                    }
                }
                v::flip_table_byte(&o, 1, off);
            }
            println!("file_len={}", len);
            println!("wrong_answers={}", wrong);
            println!("first_wrong={}", first);
        }
        // pinned_version_files : an iterator pins the version holding one table; the table is compacted away and more versions
        // are installed; the table must stay on disk and the iterator must keep its view
        "pinned_version_files" => {
            use raindb::{RainDbIterator, ReadOptions, WriteOptions};
            let mut o = raindb::DbOptions::with_memory_env();
            o.db_path = "db".to_string();
            o.create_if_missing = true;
            let db = raindb::DB::open(o.clone()).expect("open");
            db.put(WriteOptions::default(), b"a".to_vec(), b"1".to_vec()).unwrap();
            let _ = db.flush_for_verif();
            let pinned = *v::table_numbers(&o).last().expect("a table");
            let mut it = db.new_iterator(ReadOptions::default()).unwrap();
            db.put(WriteOptions::default(), b"a".to_vec(), b"2".to_vec()).unwrap();
            let _ = db.flush_for_verif();
            db.compact_range(None..None);
            for round in 0..3 {
                db.put(WriteOptions::default(), format!("k{}", round).into_bytes(), b"x".to_vec()).unwrap();
                let _ = db.flush_for_verif();
            }
            db.compact_range(None..None);
            let on_disk = v::table_numbers(&o);
            println!("pinned_table={}", pinned);
            println!("tables_on_disk={:?}", on_disk);
            println!("pinned_table_on_disk={}", on_disk.contains(&pinned));
            let mut view = vec![];
            let _ = it.seek_to_first();
            while it.is_valid() {
                let (k, val) = it.current().unwrap();
                view.push(format!("{}={}", String::from_utf8_lossy(k), String::from_utf8_lossy(val)));
                if it.next().is_none() { break; }
            }
            println!("iterator_view={}", view.join(","));
            drop(it);
            db.put(WriteOptions::default(), b"z".to_vec(), b"z".to_vec()).unwrap();
            let _ = db.flush_for_verif();
            db.compact_range(None..None);
            println!("tables_after_release={:?}", v::table_numbers(&o));
        }
        // pinned_middle_version : three iterators pin three successive versions (each holding a table no other pinned version and not
        // the current version refers to); flushes and compactions (with their obsolete-file sweeps) follow; every pinned table must
        // stay on disk and every iterator must still show its own state
        "pinned_middle_version" => {
            use raindb::{RainDbIterator, ReadOptions, WriteOptions};
            let mut o = raindb::DbOptions::with_memory_env();
            o.db_path = "db".to_string();
            o.create_if_missing = true;
            let db = raindb::DB::open(o.clone()).expect("open");
            let mut its = vec![];
            let mut pinned = vec![];
            for round in 0..3u8 {
                db.put(WriteOptions::default(), b"a".to_vec(), vec![b'1' + round]).unwrap();
                let _ = db.flush_for_verif();
                db.compact_range(None..None);
                pinned.push(*v::table_numbers(&o).iter().max().expect("a table"));
                its.push(db.new_iterator(ReadOptions::default()).unwrap());
            }
            for round in 0..3 {
                db.put(WriteOptions::default(), format!("k{}", round).into_bytes(), b"x".to_vec()).unwrap();
                db.put(WriteOptions::default(), b"a".to_vec(), b"9".to_vec()).unwrap();
                let _ = db.flush_for_verif();
                db.compact_range(None..None);
            }
            let on_disk = v::table_numbers(&o);
            println!("pinned_tables={:?}", pinned);
            println!("tables_on_disk={:?}", on_disk);
            println!("pinned_tables_on_disk={}", pinned.iter().all(|p| on_disk.contains(p)));
            let mut views = vec![];
            let mut ok = true;
            for (i, it) in its.iter_mut().enumerate() {
                let mut view = vec![];
                let _ = it.seek_to_first();
                while it.is_valid() {
                    let (k, val) = it.current().unwrap();
                    view.push(format!("{}={}", String::from_utf8_lossy(k), String::from_utf8_lossy(val)));
                    if it.next().is_none() { break; }
                }
                if view != vec![format!("a={}", (b'1' + i as u8) as char)] { ok = false; }
                views.push(view.join(","));
            }
            println!("views={}", views.join("|"));
            println!("views_ok={}", ok);
        }
        // exhausted_iterator_pin : an iterator is scanned to its end (it becomes invalid) and kept alive; the data is overwritten, flushed and
        // compacted (with the obsolete-file sweeps); the table the iterator read must stay on disk and a second scan through the same
        // iterator must show the same state
        "exhausted_iterator_pin" => {
            use raindb::{RainDbIterator, ReadOptions, WriteOptions};
            let mut o = raindb::DbOptions::with_memory_env();
            o.db_path = "db".to_string();
            o.create_if_missing = true;
            let db = raindb::DB::open(o.clone()).expect("open");
            db.put(WriteOptions::default(), b"a".to_vec(), b"1".to_vec()).unwrap();
            db.put(WriteOptions::default(), b"b".to_vec(), b"1".to_vec()).unwrap();
            let _ = db.flush_for_verif();
            let pinned = *v::table_numbers(&o).last().expect("a table");
            let mut it = db.new_iterator(ReadOptions::default()).unwrap();
            let scan = |it: &mut dyn RainDbIterator<Key = Vec<u8>, Error = raindb::RainDBError>| {
                let mut view = vec![];
                let _ = it.seek_to_first();
                while it.is_valid() {
                    let (k, val) = it.current().unwrap();
                    view.push(format!("{}={}", String::from_utf8_lossy(k), String::from_utf8_lossy(val)));
                    if it.next().is_none() { break; }
                }
                view.join(",")
            };
            let first = scan(&mut it);
            let _ = it.seek_to_last();
            let _ = it.next();
            for round in 0..3 {
                db.put(WriteOptions::default(), b"a".to_vec(), format!("{}", round + 2).into_bytes()).unwrap();
                db.put(WriteOptions::default(), b"b".to_vec(), format!("{}", round + 2).into_bytes()).unwrap();
                let _ = db.flush_for_verif();
                db.compact_range(None..None);
            }
            let on_disk = v::table_numbers(&o);
            println!("pinned_table={}", pinned);
            println!("tables_on_disk={:?}", on_disk);
            println!("pinned_table_on_disk={}", on_disk.contains(&pinned));
            let second = scan(&mut it);
            println!("iterator_view={} then {}", first, second);
            println!("view_ok={}", first == "a=1,b=1" && second == first);
        }
        // scan_over_unopenable_table : two adjacent tables in one level >= 1; the database is reopened (cold table cache) on a file system
        // that refuses to open one of them; a forward scan (second table unopenable) and a backward scan (first table unopenable)
        // must return within 20 s - with or without an error, but they must return
        "scan_over_unopenable_table" => {
            use raindb::{RainDbIterator, ReadOptions, WriteOptions};
            let mut verdicts = vec![];
            for forward in [true, false] {
                let fs = rdbv::faultfs::FaultFs::new();
                let mk = |fs: &rdbv::faultfs::FaultFs| { let mut o = raindb::DbOptions::with_memory_env(); o.filesystem_provider = std::sync::Arc::new(fs.clone()); o.db_path = "db".to_string(); o.create_if_missing = true; o };
                let o = mk(&fs);
                let mut numbers = vec![];
                {
                    let db = raindb::DB::open(o.clone()).expect("open");
                    for group in [["a", "b", "c"], ["m", "n", "p"]] {
                        for k in group { db.put(WriteOptions::default(), k.as_bytes().to_vec(), b"v".to_vec()).unwrap(); }
                        let _ = db.flush_for_verif();
                        numbers.push(*v::table_numbers(&o).iter().max().unwrap());
                    }
                }
                let db = std::sync::Arc::new(raindb::DB::open(mk(&fs)).expect("reopen"));
                let bad = if forward { numbers[1] } else { numbers[0] };
                fs.fail_open(&format!("/{}.rdb", bad));
                let (tx, rx) = std::sync::mpsc::channel();
                let db2 = std::sync::Arc::clone(&db);
                std::thread::spawn(move || {
                    let mut it = db2.new_iterator(ReadOptions::default()).unwrap();
                    let mut seen = 0;
                    let _ = if forward { it.seek_to_first() } else { it.seek_to_last() };
                    while it.is_valid() && seen < 100 {
                        seen += 1;
                        if (if forward { it.next() } else { it.prev() }).is_none() { break; }
                    }
                    let _ = tx.send(seen);
                });
                match rx.recv_timeout(std::time::Duration::from_secs(20)) {
                    Ok(seen) => verdicts.push(format!("{} scan returned after {} entries", if forward { "forward" } else { "backward" }, seen)),
                    Err(_) => verdicts.push(format!("{} scan stuck", if forward { "forward" } else { "backward" })),
                }
                fs.fail_open("");
            }
            println!("scans={}", verdicts.join("; "));
            println!("stuck={}", verdicts.iter().filter(|x| x.ends_with("stuck")).count());
            std::process::exit(0);
        }
        // disk_log_reuse : a database on the disk-backed temporary file system with log reuse: three rounds of (write two keys, overwrite
        // one of the previous round, close, reopen); every acknowledged write must be read back after every reopen
        "disk_log_reuse" => {
            use raindb::{ReadOptions, WriteOptions};
            let disk: std::sync::Arc<dyn raindb::fs::FileSystem> = std::sync::Arc::new(raindb::fs::TmpFileSystem::new(None));
            let mut o = raindb::DbOptions::with_memory_env();
            o.filesystem_provider = std::sync::Arc::clone(&disk);
            o.db_path = "db".to_string();
            o.create_if_missing = true;
            o.reuse_log_files = true;
            let mut model: std::collections::BTreeMap<Vec<u8>, Vec<u8>> = Default::default();
            let (mut wrong, mut first) = (0usize, String::new());
            for round in 0..3u32 {
                {
                    let db = raindb::DB::open(o.clone()).expect("open");
                    for (k, val) in &model {
                        let got = db.get(ReadOptions::default(), k);
                        if got.as_ref().ok() != Some(val) {
                            wrong += 1;
                            if first.is_empty() { first = format!("round {}: {} reads {:?}", round, String::from_utf8_lossy(k), got.map(|x| String::from_utf8_lossy(&x).to_string())); }
                        }
                    }
                    for j in 0..2u32 {
                        let (k, val) = (format!("key{}-{}", round, j).into_bytes(), format!("value{}-{}", round, j).into_bytes());
                        db.put(WriteOptions::default(), k.clone(), val.clone()).unwrap();
                        model.insert(k, val);
                    }
                    if round > 0 {
                        let (k, val) = (format!("key{}-0", round - 1).into_bytes(), format!("overwritten in round {}", round).into_bytes());
                        db.put(WriteOptions::default(), k.clone(), val.clone()).unwrap();
                        model.insert(k, val);
                    }
                }
            }
            let db = raindb::DB::open(o.clone()).expect("final open");
            for (k, val) in &model {
                let got = db.get(ReadOptions::default(), k);
                if got.as_ref().ok() != Some(val) {
                    wrong += 1;
                    if first.is_empty() { first = format!("final: {} reads {:?}", String::from_utf8_lossy(k), got.map(|x| String::from_utf8_lossy(&x).to_string())); }
                }
            }
            println!("keys={}", model.len());
            println!("wrong={}", wrong);
            println!("first_wrong={}", first);
        }
        // manifest_torn_prefixes : edits with one added and one deleted file (key lengths 0..40, numbers across the varint boundaries) are
        // encoded; every proper prefix that decodes must be a complete encoding itself (re-encoding gives back the prefix): a record cut
        // inside a field must be rejected, not decoded with the torn field dropped
        "manifest_torn_prefixes" => {
            let (mut prefixes, mut bad, mut first) = (0usize, 0usize, String::new());
            for klen in [0usize, 1, 3, 40] {
                for num in [1u64, 127, 128, 16384, u64::MAX] {
                    for level in [0usize, 3, 6] {
                        let key: Vec<u8> = (0..klen).map(|i| b'a' + (i % 26) as u8).collect();
                        let (n, b) = v::manifest_torn_prefixes(num, level, num, num / 2 + 1, (&key, 9), (&key, 3), (level.saturating_sub(1), num));
                        prefixes += n;
                        bad += b;
                        if b > 0 && first.is_empty() { first = format!("key length {}, numbers {}, level {}: {} of {} prefixes", klen, num, level, b, n); }
                    }
                }
            }
            println!("prefixes={}", prefixes);
            println!("accepted_inside_a_field={}", bad);
            println!("first={}", first);
        }
        // disk_create_file_modes : on the disk-backed temporary file system: a file of 100 bytes is re-created without the append flag and
        // 10 bytes are written (it must then hold exactly those 10 bytes); a file of 10 bytes is opened for appending and 5 bytes are
        // written with write_all (it must then hold the 10 old bytes followed by the 5 new ones)
        "disk_create_file_modes" => {
            use raindb::fs::FileSystem;
            use std::io::Write;
            let disk = raindb::fs::TmpFileSystem::new(None);
            let dir = std::path::Path::new("modes");
            disk.create_dir_all(dir).unwrap();
            let read_all = |p: &std::path::Path| -> Vec<u8> {
                let f = disk.open_file(p).unwrap();
                let mut buf = vec![0u8; f.len().unwrap() as usize];
                let _ = f.read_from(&mut buf, 0);
                buf
            };
            let p1 = dir.join("truncated");
            { let mut f = disk.create_file(&p1, false).unwrap(); f.write_all(&[b'o'; 100]).unwrap(); f.flush().unwrap(); }
            { let mut f = disk.create_file(&p1, false).unwrap(); f.write_all(&[b'n'; 10]).unwrap(); f.flush().unwrap(); }
            let c1 = read_all(&p1);
            println!("recreated_len={}", c1.len());
            println!("recreated_ok={}", c1 == vec![b'n'; 10]);
            let p2 = dir.join("appended");
            { let mut f = disk.create_file(&p2, false).unwrap(); f.write_all(&[b'o'; 10]).unwrap(); f.flush().unwrap(); }
            { let mut f = disk.create_file(&p2, true).unwrap(); f.write_all(&[b'n'; 5]).unwrap(); f.flush().unwrap(); }
            let c2 = read_all(&p2);
            println!("appended_len={}", c2.len());
            println!("appended_ok={}", c2 == [vec![b'o'; 10], vec![b'n'; 5]].concat());
        }
        // reopen_listing_fault : a database with 20 unflushed writes in its log is closed and reopened while listing the log directory
        // fails: the open has to fail (and a later fault-free open has to find every write) - or every write has to be readable
        "reopen_listing_fault" => {
            use raindb::{ReadOptions, WriteOptions};
            let fs = rdbv::faultfs::FaultFs::new();
            let mk = |fs: &rdbv::faultfs::FaultFs| { let mut o = raindb::DbOptions::with_memory_env(); o.filesystem_provider = std::sync::Arc::new(fs.clone()); o.db_path = "db".to_string(); o.create_if_missing = true; o };
            let keys: Vec<Vec<u8>> = (0..20u32).map(|i| format!("k{:02}", i).into_bytes()).collect();
            {
                let db = raindb::DB::open(mk(&fs)).expect("open");
                for k in &keys { db.put(WriteOptions::default(), k.clone(), b"v".to_vec()).unwrap(); }
            }
            fs.fail_list("wal");
            let mut lost = 0;
            match raindb::DB::open(mk(&fs)) {
                Ok(db) => {
                    println!("open=ok");
                    lost = keys.iter().filter(|k| db.get(ReadOptions::default(), k).is_err()).count();
                    db.put(WriteOptions::default(), b"later".to_vec(), b"x".to_vec()).unwrap();
                    let _ = db.flush_for_verif();
                }
                Err(e) => println!("open=err {:?}", e),
            }
            fs.fail_list("");
            match raindb::DB::open(mk(&fs)) {
                Ok(db) => lost += keys.iter().filter(|k| db.get(ReadOptions::default(), k).is_err()).count(),
                Err(e) => { println!("second_open=err {:?}", e); lost += keys.len(); }
            }
            println!("keys={}", keys.len());
            println!("lost={}", lost);
        }
        // short_write_flush : table files accept at most 512 bytes per write call (short writes, as std::io::Write allows); 300 entries with
        // 120-byte values are flushed: the flush has to succeed and every key has to be readable from the table
        "short_write_flush" => {
            use raindb::{ReadOptions, WriteOptions};
            let fs = rdbv::faultfs::FaultFs::new();
            let mut o = raindb::DbOptions::with_memory_env();
            o.filesystem_provider = std::sync::Arc::new(fs.clone());
            o.db_path = "db".to_string();
            o.create_if_missing = true;
            let db = raindb::DB::open(o.clone()).expect("open");
            fs.short_writes(".rdb", 512);
            let noise = |n: usize, seed: u32| -> Vec<u8> { let mut x = seed; (0..n).map(|_| { x = x.wrapping_mul(1664525).wrapping_add(1013904223); (x >> 24) as u8 }).collect() };
            let keys: Vec<Vec<u8>> = (0..300u32).map(|i| format!("k{:04}", i).into_bytes()).collect();
            for (i, k) in keys.iter().enumerate() { db.put(WriteOptions::default(), k.clone(), noise(120, i as u32)).unwrap(); }
            let flushed = db.flush_for_verif();
            let wrong = keys.iter().enumerate().filter(|(i, k)| db.get(ReadOptions::default(), k).map(|v| v != noise(120, *i as u32)).unwrap_or(true)).count();
            println!("flushed={}", flushed);
            println!("tables={}", v::table_numbers(&o).len());
            println!("wrong={}", wrong);
        }
        // truncated_table_read : on the disk file system: old values in a deep level, new values in a newer table; the newer table is opened
        // (a few reads), then its file is cut to a quarter of its length; every key is read with fill_cache = false: the new value
        // or an error - never the old value, never "not found"
        "truncated_table_read" => {
            use raindb::{ReadOptions, WriteOptions};
            let tmp = raindb::fs::TmpFileSystem::new(None);
            let root = tmp.get_root_path();
            let disk: std::sync::Arc<dyn raindb::fs::FileSystem> = std::sync::Arc::new(tmp);
            let mut o = raindb::DbOptions::with_memory_env();
            o.filesystem_provider = std::sync::Arc::clone(&disk);
            o.db_path = "db".to_string();
            o.create_if_missing = true;
            o.max_block_size = 512;
            let db = raindb::DB::open(o.clone()).expect("open");
            let keys: Vec<Vec<u8>> = (0..400u32).map(|i| format!("key{:04}", i).into_bytes()).collect();
            for k in &keys { db.put(WriteOptions::default(), k.clone(), [&b"old-"[..], k].concat()).unwrap(); }
            let _ = db.flush_for_verif();
            db.compact_range(None..None);
            for k in &keys { db.put(WriteOptions::default(), k.clone(), [&b"new-"[..], k].concat()).unwrap(); }
            let _ = db.flush_for_verif();
            let newest = *v::table_numbers(&o).iter().max().unwrap();
            for k in keys.iter().take(3) { let _ = db.get(ReadOptions::default(), k); }
            let path = root.join(v::table_path(&o, newest));
            let len = std::fs::metadata(&path).map(|m| m.len()).unwrap_or(0);
            let cut = std::fs::OpenOptions::new().write(true).open(&path).and_then(|f| f.set_len(len / 4)).is_ok();
            let (mut stale, mut errors) = (0usize, 0usize);
            for k in &keys {
                match db.get(ReadOptions { fill_cache: false, snapshot: None }, k) {
                    Ok(val) if val == [&b"new-"[..], k.as_slice()].concat() => {}
                    Ok(_) => stale += 1,
                    Err(raindb::RainDBError::KeyNotFound) => stale += 1,
                    Err(_) => errors += 1,
                }
            }
            println!("truncated={} ({} -> {} bytes)", cut, len, len / 4);
            println!("keys={}", keys.len());
            println!("stale={}", stale);
            println!("errors={}", errors);
        }
        // binary_range_compaction : a manual compaction whose bounds are not valid UTF-8 (keys 0xff 0xfe .. 0xff 0xff stored too), under a
        // 20 s watchdog; afterwards a put and a flush must still complete (the background thread is alive)
        "binary_range_compaction" => {
            use raindb::WriteOptions;
            let mut o = raindb::DbOptions::with_memory_env();
            o.db_path = "db".to_string();
            o.create_if_missing = true;
            let db = std::sync::Arc::new(raindb::DB::open(o).expect("open"));
            for round in 0..2u8 {
                for k in [vec![b'a'], vec![0xff, 0xfe], vec![0xff, 0xff]] { db.put(WriteOptions::default(), k, vec![b'0' + round]).unwrap(); }
                let _ = db.flush_for_verif();
            }
            let (tx, rx) = std::sync::mpsc::channel();
            let db2 = std::sync::Arc::clone(&db);
            std::thread::spawn(move || {
                db2.compact_range(Some(&[0xff, 0xfe][..])..Some(&[0xff, 0xff][..]));
                let _ = tx.send(());
            });
            let returned = rx.recv_timeout(std::time::Duration::from_secs(20)).is_ok();
            println!("compact_range={}", if returned { "returned" } else { "stuck" });
            let (tx2, rx2) = std::sync::mpsc::channel();
            let db3 = std::sync::Arc::clone(&db);
            std::thread::spawn(move || {
                let ok = db3.put(WriteOptions::default(), b"later".to_vec(), b"x".to_vec()).is_ok() && db3.flush_for_verif();
                let _ = tx2.send(ok);
            });
            println!("later_flush={}", match rx2.recv_timeout(std::time::Duration::from_secs(20)) { Ok(true) => "ok", Ok(false) => "failed", Err(_) => "stuck" });
            std::process::exit(0);
        }
        // manifest_codec : edits of trivial moves (file n deleted at level L, added at level L + 1) and a mixed edit are encoded
        // and decoded by the real codec
        "manifest_codec" => {
            let (mut edits, mut bad, mut first) = (0usize, 0usize, String::new());
            for level in 0..6usize {
                for num in [1u64, 7, 300, 70000] {
                    edits += 1;
                    let ok = match v::manifest_trivial_move_roundtrip(level, num, 4096) {
                        Some((del, add)) => del == vec![(level, num)] && add == vec![(level + 1, num)],
                        None => false,
                    };
                    if !ok {
                        bad += 1;
                        if first.is_empty() {
                            first = format!("trivial move of file {} from level {}: {:?}", num, level, v::manifest_trivial_move_roundtrip(level, num, 4096));
                        }
                    }
                }
            }
            edits += 1;
            let r = v::manifest_roundtrip(12, 3, 40, 999, (b"a", 9), (b"m", 8), (2, 41));
            let ok = matches!(&r, Some((Some(12), 3, 40, 999, s, l, 1)) if s.0 == b"a".to_vec() && s.1 == 9 && l.0 == b"m".to_vec() && l.1 == 8);
            if !ok {
                bad += 1;
                if first.is_empty() {
                    first = format!("mixed edit: {:?}", r);
                }
            }
            // varint boundaries in every numeric field, short and empty user keys, extreme sequence numbers
            let nums = [0u64, 1, 127, 128, 16383, 16384, (1 << 32) - 1, 1 << 32, (1 << 63) - 1, 1 << 63, u64::MAX];
            let keys: [&[u8]; 4] = [b"", b"\x00", b"\xff", b"ab"];
            for (i, wal) in nums.iter().enumerate() {
                for (j, size) in nums.iter().enumerate() {
                    let num = nums[(i + j) % nums.len()];
                    let (sk, lk) = (keys[(i + j) % 4], keys[(i + 2 * j + 1) % 4]);
                    let (ss, ls) = (nums[(2 * i + j) % nums.len()] >> 8, nums[(i + 3 * j) % nums.len()] >> 8);
                    edits += 1;
                    let r = v::manifest_roundtrip(*wal, (i + j) % 7, num, *size, (sk, ss), (lk, ls), (j % 7, num));
                    let ok = matches!(&r, Some((Some(w), lv, n, sz, s, l, 1)) if w == wal && *lv == (i + j) % 7 && *n == num && sz == size && s.0 == sk.to_vec() && s.1 == ss && l.0 == lk.to_vec() && l.1 == ls);
                    if !ok {
                        bad += 1;
                        if first.is_empty() {
                            first = format!("wal {} level {} file {} size {} keys {:?}@{} {:?}@{}: {:?}", wal, (i + j) % 7, num, size, sk, ss, lk, ls, r);
                        }
                    }
                }
            }
            println!("edits={}", edits);
            println!("mismatches={}", bad);
            println!("first_mismatch={}", first);
        }
        // memfs_append_after_partial_read : in-memory file system; three records; another handle leaves the shared cursor behind
        // (a reader that stops after one record / a size query); the log is reopened for appending; all four records must be there
        "memfs_append_after_partial_read" => {
            use raindb::fs::FileSystem;
            for variant in ["partial_read", "size_query"] {
                let fs: std::sync::Arc<dyn raindb::fs::FileSystem> = std::sync::Arc::new(raindb::fs::InMemoryFileSystem::new());
                let path = std::path::PathBuf::from("wal-1.log");
                {
                    let mut w = v::VLogWriter::new(std::sync::Arc::clone(&fs), &path, false).unwrap();
                    for i in 0..3u8 {
                        w.append(&vec![i + 1; 20]).unwrap();
                    }
                }
                if variant == "partial_read" {
                    let mut r = v::VLogReader::new(std::sync::Arc::clone(&fs), &path).unwrap();
                    let _ = r.read_record();
                } else {
                    let _ = fs.get_file_size(&path);
                }
                {
                    let mut w = v::VLogWriter::new(std::sync::Arc::clone(&fs), &path, true).unwrap();
                    w.append(&vec![9u8; 20]).unwrap();
                }
                let mut r = v::VLogReader::new(std::sync::Arc::clone(&fs), &path).unwrap();
                let mut n = 0;
                while let Ok((rec, eof)) = r.read_record() {
                    if eof { break; }
                    if rec.len() == 20 { n += 1; }
                    if n > 10 { break; }
                }
                println!("after_{}={}", variant, n);
            }
        }
        "vs_recover" => {
            // a database is created, written and closed; a fresh version set recovers from its files
            use raindb::WriteOptions;
            let mut o = raindb::DbOptions::with_memory_env();
            o.db_path = "db".to_string();
            o.create_if_missing = true;
            o.reuse_log_files = a[1] == "reuse";
            {
                let db = raindb::DB::open(o.clone()).expect("open");
                for k in ["k1", "k2", "k3"] {
                    db.put(WriteOptions::default(), k.as_bytes().to_vec(), b"v".to_vec()).unwrap();
                }
            }
            match v::vset_recover_numbers(o.clone()) {
                Some((named, next_manifest, next_file, reused)) => {
                    println!("current_manifest={}", named);
                    println!("next_manifest={}", next_manifest);
                    println!("next_file_number={}", next_file);
                    println!("reused={}", reused);
                }
                None => println!("recover=failed"),
            }
        }
        "recovery_scenario" => {
            use raindb::{ReadOptions, WriteOptions};
            let mut o = raindb::DbOptions::with_memory_env();
            o.db_path = "db".to_string();
            o.create_if_missing = true;
            o.reuse_log_files = true;
            {
                let db = raindb::DB::open(o.clone()).expect("open");
                for k in ["k1", "k2", "k3"] {
                    db.put(WriteOptions::default(), k.as_bytes().to_vec(), b"v".to_vec()).unwrap();
                }
            }
            let wals = v::wal_numbers(&o);
            let newest = *wals.last().expect("a wal");
            let fabricated = newest + 5;
            let mut expected = vec!["k1", "k2", "k3"];
            {
                let mut w = v::VLogWriter::new(o.filesystem_provider(), &v::wal_path(&o, fabricated), false).unwrap();
                if a[1] == "two_wals_reuse" {
                    w.append(&v::encode_put_batch(4, &[(b"k4".to_vec(), b"v".to_vec())])).unwrap();
                    expected.push("k4");
                }
            }
            println!("wals={:?}+{}", wals, fabricated);
            let read = |db: &raindb::DB| -> String {
                let mut got = vec![];
                for k in ["k1", "k2", "k3", "k4"] {
                    if db.get(ReadOptions::default(), k.as_bytes()).is_ok() {
                        got.push(k);
                    }
                }
                got.join(",")
            };
            {
                let db = raindb::DB::open(o.clone()).expect("reopen 1");
                println!("open1={}", read(&db));
                db.put(WriteOptions::default(), b"k5".to_vec(), b"v".to_vec()).unwrap();
            }
            {
                let db = raindb::DB::open(o.clone()).expect("reopen 2");
                println!("open2={}", read(&db));
            }
            println!("expected={}", expected.join(","));
        }
        // descriptor_watchdog Stats|SSTables|NumFilesAtLevel : does get_descriptor return? (the driver applies the watchdog)
        "descriptor_watchdog" => {
            let mut o = raindb::DbOptions::with_memory_env();
            o.db_path = "db".to_string();
            o.create_if_missing = true;
            let db = raindb::DB::open(o).expect("open");
            let d = match a[1] {
                "Stats" => raindb::db::DatabaseDescriptor::Stats,
                "SSTables" => raindb::db::DatabaseDescriptor::SSTables,
                _ => raindb::db::DatabaseDescriptor::NumFilesAtLevel(0),
            };
            let r = db.get_descriptor(d);
            println!("returned={}", r.is_ok());
            std::process::exit(0);
        }
        other => {
            eprintln!("unknown command {}", other);
            std::process::exit(2);
        }
    }
}
