//! Engine A: Kani proof harnesses over the compiled crate (byte-level units).
//! Shapes (lengths, counts) are constants of each harness; contents are symbolic.
#![allow(dead_code)]
use raindb::verif as v;
use std::cmp::Ordering;

pub fn stub_format(_args: core::fmt::Arguments<'_>) -> String {
    String::new()
}

fn ref_cmp(a: (&[u8], u64), b: (&[u8], u64)) -> Ordering {
    // reference order: user key ascending (bytewise, shorter prefix first), sequence descending
    let mut i = 0;
    while i < a.0.len() && i < b.0.len() {
        if a.0[i] != b.0[i] {
            return if a.0[i] < b.0[i] { Ordering::Less } else { Ordering::Greater };
        }
        i += 1;
    }
    if a.0.len() != b.0.len() {
        return if a.0.len() < b.0.len() { Ordering::Less } else { Ordering::Greater };
    }
    if a.1 != b.1 {
        return if a.1 > b.1 { Ordering::Less } else { Ordering::Greater };
    }
    Ordering::Equal
}

macro_rules! ikey_order {
    ($name:ident, $la:expr, $lb:expr, $lc:expr) => {
        #[kani::proof]
        #[kani::unwind(4)]
        #[kani::stub(alloc::fmt::format, stub_format)]
        fn $name() {
            let a: [u8; $la] = kani::any();
            let b: [u8; $lb] = kani::any();
            let c: [u8; $lc] = kani::any();
            let (sa, sb, sc): (u64, u64, u64) = (kani::any(), kani::any(), kani::any());
            let (oa, ob, oc): (bool, bool, bool) = (kani::any(), kani::any(), kani::any());
            let ab = v::ikey_cmp((&a, sa, oa), (&b, sb, ob));
            let ba = v::ikey_cmp((&b, sb, ob), (&a, sa, oa));
            let bc = v::ikey_cmp((&b, sb, ob), (&c, sc, oc));
            let ac = v::ikey_cmp((&a, sa, oa), (&c, sc, oc));
            assert!(ab == ref_cmp((&a, sa), (&b, sb)), "InternalKey order differs from (user key asc, sequence desc)");
            assert!(ab == ba.reverse(), "InternalKey order is not antisymmetric");
            assert!(!(ab == Ordering::Less && bc == Ordering::Less) || ac == Ordering::Less, "InternalKey order is not transitive");
            kani::cover!(true, "end reached");
        }
    };
}
ikey_order!(o1_1_ikey_order_k1, 1, 1, 1);
ikey_order!(o1_1_ikey_order_k2, 2, 2, 2);
ikey_order!(o1_1_ikey_order_mixed, 1, 2, 0);

// ------------------------------------------------------------------ O13.1 separators / successors
macro_rules! bytes_sep {
    ($name:ident, $la:expr, $lb:expr) => {
        #[kani::proof]
        #[kani::unwind(5)]
        #[kani::stub(alloc::fmt::format, stub_format)]
        fn $name() {
            let a: [u8; $la] = kani::any();
            let b: [u8; $lb] = kani::any();
            kani::assume(ref_cmp((&a, 0), (&b, 0)) == Ordering::Less);
            let s = v::bytes_separator(&a, &b);
            assert!(ref_cmp((&a, 0), (&s, 0)) != Ordering::Greater, "separator is smaller than the lower key");
            assert!(ref_cmp((&s, 0), (&b, 0)) == Ordering::Less, "separator is not below the upper key");
            assert!(s.len() <= a.len(), "separator is longer than the lower key");
            kani::cover!(true, "end reached");
            core::mem::forget(s);
        }
    };
}
bytes_sep!(o13_1_bytes_separator_1_1, 1, 1);
bytes_sep!(o13_1_bytes_separator_2_2, 2, 2);
bytes_sep!(o13_1_bytes_separator_2_1, 2, 1);
bytes_sep!(o13_1_bytes_separator_1_2, 1, 2);
bytes_sep!(o13_1_bytes_separator_3_3, 3, 3);

macro_rules! bytes_succ {
    ($name:ident, $la:expr) => {
        #[kani::proof]
        #[kani::unwind(5)]
        #[kani::stub(alloc::fmt::format, stub_format)]
        fn $name() {
            let a: [u8; $la] = kani::any();
            let s = v::bytes_successor(&a);
            assert!(ref_cmp((&a, 0), (&s, 0)) != Ordering::Greater, "successor is smaller than the key");
            assert!(s.len() <= a.len(), "successor is longer than the key");
            kani::cover!(true, "end reached");
            core::mem::forget(s);
        }
    };
}
bytes_succ!(o13_1_bytes_successor_1, 1);
bytes_succ!(o13_1_bytes_successor_2, 2);
bytes_succ!(o13_1_bytes_successor_3, 3);

fn le_u64(b: &[u8]) -> u64 {
    let mut x: u64 = 0;
    let mut i = 0;
    while i < 8 {
        x |= (b[i] as u64) << (8 * i);
        i += 1;
    }
    x
}

macro_rules! ikey_sep {
    ($name:ident, $la:expr, $lb:expr) => {
        #[kani::proof]
        #[kani::unwind(13)]
        #[kani::stub(alloc::fmt::format, stub_format)]
        fn $name() {
            let a: [u8; $la] = kani::any();
            let b: [u8; $lb] = kani::any();
            let (sa, sb): (u64, u64) = (kani::any(), kani::any());
            kani::assume(ref_cmp((&a, sa), (&b, sb)) == Ordering::Less);
            let raw = v::ikey_separator_raw((&a, sa, true), (&b, sb, true));
            // encoded key = user key, 8-byte little-endian sequence, 1-byte operation
            assert!(raw.len() >= 9 && raw.len() <= $la + 9, "separator is longer than the lower key");
            let ul = raw.len() - 9;
            let su = &raw[..ul];
            let ss = le_u64(&raw[ul..ul + 8]);
            assert!(ref_cmp((&a, sa), (su, ss)) != Ordering::Greater, "index key sorts before the last key of its block");
            assert!(ref_cmp((su, ss), (&b, sb)) == Ordering::Less, "index key does not sort before the first key of the next block");
            // the contract used by Engine B (O1.6): same key, or a strictly larger user key with the maximal sequence number
            let same = ul == a.len() && ref_cmp((&a, sa), (su, ss)) == Ordering::Equal;
            let shortened = ref_cmp((&a, 0), (su, 0)) == Ordering::Less && ss == u64::MAX && ref_cmp((su, 0), (&b, 0)) == Ordering::Less;
            assert!(same || shortened, "index key is neither the block's last key nor a shortened user key with the maximal sequence");
            kani::cover!(same, "unchanged separator reachable");
            core::mem::forget(raw);
        }
    };
}
ikey_sep!(o13_1_ikey_separator_1_1, 1, 1);
ikey_sep!(o13_1_ikey_separator_2_2, 2, 2);
ikey_sep!(o13_1_ikey_separator_2_1, 2, 1);

macro_rules! ikey_succ {
    ($name:ident, $la:expr) => {
        #[kani::proof]
        #[kani::unwind(13)]
        #[kani::stub(alloc::fmt::format, stub_format)]
        fn $name() {
            let a: [u8; $la] = kani::any();
            let sa: u64 = kani::any();
            let (su, ss) = v::ikey_successor((&a, sa, true));
            assert!(ref_cmp((&a, sa), (&su, ss)) != Ordering::Greater, "last index key sorts before the last key of the table");
            let same = su.len() == a.len() && ref_cmp((&a, sa), (&su, ss)) == Ordering::Equal;
            let shortened = ref_cmp((&a, 0), (&su, 0)) == Ordering::Less && ss == u64::MAX;
            assert!(same || shortened, "successor is neither the key itself nor a larger user key with the maximal sequence");
            kani::cover!(same || shortened, "end reached");
            core::mem::forget(su);
        }
    };
}
ikey_succ!(o13_1_ikey_successor_1, 1);
ikey_succ!(o13_1_ikey_successor_2, 2);

// ------------------------------------------------------------------ O13.2 internal key encoding
macro_rules! ikey_rt {
    ($name:ident, $la:expr) => {
        #[kani::proof]
        #[kani::unwind(20)]
        #[kani::stub(alloc::fmt::format, stub_format)]
        fn $name() {
            let a: [u8; $la] = kani::any();
            let (s, o): (u64, bool) = (kani::any(), kani::any());
            let r = v::ikey_roundtrip((&a, s, o));
            match r {
                Some((u, s2, o2)) => {
                    assert!(u.len() == a.len() && ref_cmp((&a, 0), (&u, 0)) == Ordering::Equal, "user key changed in the byte encoding");
                    assert!(s2 == s && o2 == o, "sequence or operation changed in the byte encoding");
                    core::mem::forget(u);
                }
                None => assert!(false, "encoded internal key does not parse"),
            }
            kani::cover!(true, "end reached");
        }
    };
}
ikey_rt!(o13_2_ikey_roundtrip_0, 0);
ikey_rt!(o13_2_ikey_roundtrip_2, 2);

// ------------------------------------------------------------------ O14.1 Bloom filter: no false negatives
macro_rules! bloom {
    ($name:ident, $bits:expr, $l0:expr, $l1:expr) => {
        #[kani::proof]
        #[kani::unwind(34)]
        #[kani::stub(alloc::fmt::format, stub_format)]
        fn $name() {
            use raindb::FilterPolicy;
            let p = raindb::BloomFilterPolicy::new($bits);
            let k0: [u8; $l0] = kani::any();
            let k1: [u8; $l1] = kani::any();
            let keys = vec![k0.to_vec(), k1.to_vec()];
            let f = p.create_filter(&keys);
            assert!(matches!(p.key_may_match(&k0, &f), Ok(true)), "filter rejects a key it was built from (first key)");
            assert!(matches!(p.key_may_match(&k1, &f), Ok(true)), "filter rejects a key it was built from (second key)");
            kani::cover!(true, "end reached");
            core::mem::forget(f);
            core::mem::forget(keys);
        }
    };
}
bloom!(o14_1_bloom_b10_l1_l4, 10, 1, 4);
bloom!(o14_1_bloom_b1_l0_l3, 1, 0, 3);
bloom!(o14_1_bloom_b64_l5_l1, 64, 5, 1);
bloom!(o14_1_bloom_b64_l1_l0, 64, 1, 0);
bloom!(o14_1_bloom_b45_l0_l1, 45, 0, 1);
bloom!(o14_1_bloom_b9_l4_l4, 9, 4, 4);
bloom!(o14_1_bloom_b43_l3_l5, 43, 3, 5);

// reader configured differently from the writer: the probe count stored in the filter must be used
#[kani::proof]
#[kani::unwind(34)]
#[kani::stub(alloc::fmt::format, stub_format)]
fn o14_1_bloom_reader_other_bits() {
    use raindb::FilterPolicy;
    let w = raindb::BloomFilterPolicy::new(5);
    let r = raindb::BloomFilterPolicy::new(20);
    let k0: [u8; 2] = kani::any();
    let keys = vec![k0.to_vec()];
    let f = w.create_filter(&keys);
    assert!(matches!(r.key_may_match(&k0, &f), Ok(true)), "a policy with another bits_per_key rejects a key stored in the filter");
    kani::cover!(true, "end reached");
    core::mem::forget(f);
    core::mem::forget(keys);
}

// ------------------------------------------------------------------ O15.1 checksum masking
#[kani::proof]
fn o15_1_crc_mask_roundtrip() {
    let x: u32 = kani::any();
    assert!(v::crc_unmask(v::crc_mask(x)) == x, "unmask(mask(x)) != x");
    kani::cover!(true, "end reached");
}

// ------------------------------------------------------------------ O15.3 parsers never panic on arbitrary bytes
macro_rules! parser {
    ($name:ident, $n:expr, $unwind:expr, $call:expr) => {
        #[kani::proof]
        #[kani::unwind($unwind)]
        #[kani::stub(alloc::fmt::format, stub_format)]
        fn $name() {
            let b: [u8; $n] = kani::any();
            let buf = b.to_vec();
            let f = $call;
            let ok: bool = f(buf);
            kani::cover!(ok || !ok, "end reached");
        }
    };
}
parser!(o15_3_parse_block_record_9, 9, 12, |buf: Vec<u8>| { let r = v::parse_block_record(&buf); core::mem::forget(buf); r });
parser!(o15_3_parse_block_record_6, 6, 12, |buf: Vec<u8>| { let r = v::parse_block_record(&buf); core::mem::forget(buf); r });
parser!(o15_3_parse_footer_48, 48, 50, |buf: Vec<u8>| { let r = v::parse_footer(&buf); core::mem::forget(buf); r });
parser!(o15_3_parse_footer_47, 47, 50, |buf: Vec<u8>| { let r = v::parse_footer(&buf); core::mem::forget(buf); r });
parser!(o15_3_parse_internal_key_10, 10, 12, |buf: Vec<u8>| v::parse_internal_key(buf));
parser!(o15_3_parse_internal_key_8, 8, 12, |buf: Vec<u8>| v::parse_internal_key(buf));
parser!(o15_3_parse_block_handle_3, 3, 12, |buf: Vec<u8>| { let r = v::parse_block_handle(&buf); core::mem::forget(buf); r });

// ------------------------------------------------------------------ O12.2 / O15.2 one-record log files, real CRC
use rdbv_onefs::*;
mod rdbv_onefs {
    pub use crate::onefs::*;
}
use raindb::fs::FileSystem;
use std::path::Path;
use std::sync::Arc;

macro_rules! log_rt {
    ($name:ident, $n:expr) => {
        #[kani::proof]
        #[kani::unwind(8)]
        #[kani::stub(alloc::fmt::format, stub_format)]
        fn $name() {
            let fs = Arc::new(OneFs::new());
            let dynfs: Arc<dyn FileSystem> = fs.clone();
            let p = Path::new("l");
            let mut w = v::VLogWriter::new(dynfs.clone(), p, false).unwrap();
            let a: [u8; $n] = kani::any();
            assert!(w.append(&a).is_ok(), "append failed");
            assert!(fs.store().data.len() == 7 + $n, "file length is not header + payload");
            let mut r = v::VLogReader::new(dynfs.clone(), p).unwrap();
            match r.read_record() {
                Ok((ra, eof)) => {
                    assert!(!eof, "record not returned");
                    assert!(ra.len() == $n, "record length differs");
                    let mut i = 0;
                    while i < $n {
                        assert!(ra[i] == a[i], "record byte differs");
                        i += 1;
                    }
                    core::mem::forget(ra);
                }
                Err(_) => assert!(false, "reader reports an error on an intact file"),
            }
            match r.read_record() {
                Ok((ra, eof)) => {
                    assert!(eof, "a second record is returned");
                    core::mem::forget(ra);
                }
                Err(_) => assert!(false, "reader reports an error at end of file"),
            }
            kani::cover!(true, "end reached");
            core::mem::forget(r);
            core::mem::forget(w);
            core::mem::forget(dynfs);
            core::mem::forget(fs);
        }
    };
}
log_rt!(o12_2_log_roundtrip_len0, 0);
log_rt!(o12_2_log_roundtrip_len1, 1);
log_rt!(o12_2_log_roundtrip_len2, 2);

// ------------------------------------------------------------------ O12.6 one log fragment: (type, payload) survive serialise + parse
macro_rules! frag_rt {
    ($name:ident, $n:expr) => {
        #[kani::proof]
        #[kani::unwind(8)]
        #[kani::stub(alloc::fmt::format, stub_format)]
        fn $name() {
            let ty: u8 = kani::any();
            kani::assume(ty <= 3);
            let data: [u8; $n] = kani::any();
            match v::block_record_roundtrip(ty, &data) {
                Some((t2, d2)) => {
                    assert!(t2 == ty, "a log fragment is parsed with another type than it was written with");
                    assert!(d2.len() == $n, "a log fragment is parsed with another payload length than it was written with");
                    let mut i = 0;
                    while i < $n {
                        assert!(d2[i] == data[i], "a log fragment is parsed with another payload than it was written with");
                        i += 1;
                    }
                    core::mem::forget(d2);
                }
                None => assert!(false, "a freshly serialised log fragment does not parse"),
            }
            kani::cover!(true, "end reached");
        }
    };
}
frag_rt!(o12_6_fragment_roundtrip_len0, 0);
frag_rt!(o12_6_fragment_roundtrip_len1, 1);
frag_rt!(o12_6_fragment_roundtrip_len2, 2);

// (a Kani harness for the version-edit codec ran into the 600 s limit: HashSet hashing with a nondeterministic RandomState; the codec is
// checked by Engine B over a token stream instead, obligation O10.8)

macro_rules! log_corrupt {
    ($name:ident, $k:expr) => {
        #[kani::proof]
        #[kani::unwind(8)]
        #[kani::stub(alloc::fmt::format, stub_format)]
        fn $name() {
            let fs = Arc::new(OneFs::new());
            let dynfs: Arc<dyn FileSystem> = fs.clone();
            let p = Path::new("l");
            let mut w = v::VLogWriter::new(dynfs.clone(), p, false).unwrap();
            let a: [u8; 2] = kani::any();
            assert!(w.append(&a).is_ok());
            let flip: u8 = kani::any();
            kani::assume(flip != 0);
            fs.store().data[$k] ^= flip;
            let mut r = v::VLogReader::new(dynfs.clone(), p).unwrap();
            let mut n = 0;
            while n < 3 {
                match r.read_record() {
                    Ok((ra, eof)) => {
                        if eof {
                            core::mem::forget(ra);
                            break;
                        }
                        // anything that is returned must be the record that was appended
                        assert!(ra.len() == 2 && ra[0] == a[0] && ra[1] == a[1], "a record that was never appended is returned from a corrupted log");
                        core::mem::forget(ra);
                    }
                    Err(_) => break,
                }
                n += 1;
            }
            assert!(n < 3, "reader does not reach end-of-file on a 9-byte log");
            kani::cover!(true, "end reached");
            core::mem::forget(r);
            core::mem::forget(w);
            core::mem::forget(dynfs);
            core::mem::forget(fs);
        }
    };
}
log_corrupt!(o15_2_log_corrupt_crc0, 0);
log_corrupt!(o15_2_log_corrupt_len4, 4);
log_corrupt!(o15_2_log_corrupt_type6, 6);
log_corrupt!(o15_2_log_corrupt_payload7, 7);
log_corrupt!(o15_2_log_corrupt_payload8, 8);

// ------------------------------------------------------------------ O13.4 block builder / reader (probe)
macro_rules! block_cursor {
    ($name:ident, $ri:expr, $fwd:expr) => {
        #[kani::proof]
        #[kani::unwind(22)]
        #[kani::stub(alloc::fmt::format, stub_format)]
        fn $name() {
            let (k0, k1, t): (u8, u8, u8) = (kani::any(), kani::any(), kani::any());
            let (s0, s1, ts): (u64, u64, u64) = (kani::any(), kani::any(), kani::any());
            let (v0, v1): (u8, u8) = (kani::any(), kani::any());
            kani::assume(s0 < (1 << 56) && s1 < (1 << 56) && ts < (1 << 56));
            kani::assume(k0 < k1 || (k0 == k1 && s0 > s1));
            let out = v::block_cursor($ri, &[(k0, s0, true, v0), (k1, s1, true, v1)], (t, ts), $fwd, 1);
            // reference: position of the first entry >= (t, ts) in (user key asc, sequence desc) order
            let ge = |k: u8, s: u64| k > t || (k == t && s <= ts);
            let pos: usize = if ge(k0, s0) { 0 } else if ge(k1, s1) { 1 } else { 2 };
            let ents = [(k0, s0, v0), (k1, s1, v1)];
            assert!(out.len() == 2, "block does not parse");
            assert!(out[0] == if pos < 2 { Some(ents[pos]) } else { None }, "seek does not land on the first entry >= target");
            let after: Option<(u8, u64, u8)> = if pos == 2 { None } else if $fwd { if pos + 1 < 2 { Some(ents[pos + 1]) } else { None } } else { if pos == 0 { None } else { Some(ents[pos - 1]) } };
            assert!(out[1] == after, "the step after the seek does not move to the neighbouring entry");
            core::mem::forget(out);
            kani::cover!(true, "end reached");
        }
    };
}
block_cursor!(o13_4_block_cursor_r1_fwd, 1, true);
block_cursor!(o13_4_block_cursor_r16_bwd, 16, false);        // CBMC exceeds 16 GB (64-bit sequences under prefix compression): not run

// the same with sequence numbers and keys of 8 bits (prefix compression between the two entries is still exercised: equal user
// keys share 1 + 7 leading bytes of the 9-byte key suffix)
macro_rules! block_cursor_small {
    ($name:ident, $ri:expr, $fwd:expr) => {
        #[kani::proof]
        #[kani::unwind(22)]
        #[kani::stub(alloc::fmt::format, stub_format)]
        fn $name() {
            let (k0, k1, t): (u8, u8, u8) = (kani::any(), kani::any(), kani::any());
            let (s0, s1, ts): (u8, u8, u8) = (kani::any(), kani::any(), kani::any());
            let (s0, s1, ts) = (s0 as u64, s1 as u64, ts as u64);
            let (v0, v1): (u8, u8) = (kani::any(), kani::any());
            kani::assume(k0 < k1 || (k0 == k1 && s0 > s1));
            let out = v::block_cursor($ri, &[(k0, s0, true, v0), (k1, s1, true, v1)], (t, ts), $fwd, 1);
            let ge = |k: u8, s: u64| k > t || (k == t && s <= ts);
            let pos: usize = if ge(k0, s0) { 0 } else if ge(k1, s1) { 1 } else { 2 };
            let ents = [(k0, s0, v0), (k1, s1, v1)];
            assert!(out.len() == 2, "block does not parse");
            assert!(out[0] == if pos < 2 { Some(ents[pos]) } else { None }, "seek does not land on the first entry >= target");
            let after: Option<(u8, u64, u8)> = if pos == 2 { None } else if $fwd { if pos + 1 < 2 { Some(ents[pos + 1]) } else { None } } else { if pos == 0 { None } else { Some(ents[pos - 1]) } };
            assert!(out[1] == after, "the step after the seek does not move to the neighbouring entry");
            core::mem::forget(out);
            kani::cover!(true, "end reached");
        }
    };
}
block_cursor_small!(o13_4_block_small_r16_fwd, 16, true);
block_cursor_small!(o13_4_block_small_r16_bwd, 16, false);
block_cursor_small!(o13_4_block_small_r1_bwd, 1, false);
